#!/bin/bash
# usage: tools/seedtest.sh <seed-dir-name> <property> <demo-dir> "<test pkgs>" [tier]
# Confirms a seeded change (builds, existing tests pass, demo fails with / passes without)
# in a scratch worktree, then runs the property's check against /repo with the patch applied.
export GOFLAGS=-mod=mod GOPROXY=off GOSUMDB=off GOTOOLCHAIN=local
seed=$1; prop=$2; ddir=$3; pkgs=$4; tier=${5:-quick}
S=/verif/seeded/$seed
W=/tmp/vw-$seed
git -C /repo worktree remove --force $W >/dev/null 2>&1
git -C /repo worktree add --detach $W HEAD >/dev/null 2>&1 || { echo "worktree failed"; exit 2; }
cd $W
res="seed=$seed"
if ! git apply --3way $S/patch.diff 2>/tmp/apply.err && ! git apply $S/patch.diff 2>>/tmp/apply.err; then echo "PATCH DOES NOT APPLY"; cat /tmp/apply.err; git -C /repo worktree remove --force $W; exit 2; fi
git reset -q
go build ./... && res="$res build=ok" || res="$res build=FAIL"
go test -count=1 $pkgs >/tmp/seedtest.$seed.log 2>&1 && res="$res tests=pass" || { sleep 1; go test -count=1 $pkgs >/tmp/seedtest.$seed.log 2>&1 && res="$res tests=pass(retry)" || res="$res tests=FAIL"; }
cp $S/demo_test.go $ddir/zz_demo_test.go
go test -count=1 -run 'Demo|Seed' ./$ddir >/tmp/seeddemo.$seed.with.log 2>&1 && res="$res demo_with=PASS(!)" || res="$res demo_with=fail"
git checkout -q -- . 
go test -count=1 -run 'Demo|Seed' ./$ddir >/tmp/seeddemo.$seed.without.log 2>&1 && res="$res demo_without=pass" || res="$res demo_without=FAIL(!)"
rm -f $ddir/zz_demo_test.go
cd /verif
git -C /repo worktree remove --force $W
# now the check
git -C /repo apply $S/patch.diff || { echo "cannot apply to /repo"; exit 2; }
timeout 3000 bin/check $prop $tier -no-evidence >/tmp/seedcheck.$seed.out 2>/tmp/seedcheck.$seed.err; rc=$?
git -C /repo checkout -- .
nv=$(grep -c '^VIOLATION' /tmp/seedcheck.$seed.out)
echo "$res check_exit=$rc violations=$nv"
grep -m3 "assert:\|panic:" /tmp/seedcheck.$seed.err | cut -c1-260
tail -1 /tmp/seedcheck.$seed.err | grep -o "BROKEN.*" | cut -c1-200
