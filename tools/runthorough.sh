#!/bin/bash
# Runs every claimed check's thorough command (writes evidence) with a per-check limit and prints a summary.
cd /verif
lim=${LIMIT:-2400}
for id in $(python3 -c "import json; print(' '.join(c['property_id'] for c in json.load(open('MANIFEST.json'))['checks']))"); do
  if [ -n "$1" ] && ! echo " $* " | grep -q " $id "; then continue; fi
  s=$(date +%s)
  timeout $lim bin/check $id thorough > /tmp/runthorough.$id.out 2>/tmp/runthorough.$id.err; rc=$?
  e=$(date +%s)
  echo "$id exit=$rc $((e-s))s viol=$(grep -c '^VIOLATION' /tmp/runthorough.$id.out) known=$(grep -c '^KNOWN' /tmp/runthorough.$id.out) $(tail -1 /tmp/runthorough.$id.err | grep -o 'exhaustive=[a-z]*')"
done
