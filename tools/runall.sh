#!/bin/bash
# Runs every claimed check's quick command (writes evidence) and prints a summary.
cd /verif
for id in $(python3 -c "import json; print(' '.join(c['property_id'] for c in json.load(open('MANIFEST.json'))['checks']))"); do
  if [ -n "$1" ] && ! echo " $* " | grep -q " $id "; then continue; fi
  s=$(date +%s)
  timeout 1800 bin/check $id quick > /tmp/runall.$id.out 2>/tmp/runall.$id.err; rc=$?
  e=$(date +%s)
  echo "$id exit=$rc $((e-s))s viol=$(grep -c '^VIOLATION' /tmp/runall.$id.out) known=$(grep -c '^KNOWN' /tmp/runall.$id.out) $(tail -1 /tmp/runall.$id.err | grep -o 'exhaustive=[a-z]*')"
done
