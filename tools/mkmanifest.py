#!/usr/bin/env python3
"""Regenerates /verif/MANIFEST.json from checks/*.json ("manifest" section) and na.json."""
import json, glob, os, sys
V = '/verif'
props = [json.loads(l)['id'] for l in open(f'{V}/properties.jsonl')]
na = json.load(open(f'{V}/na.json'))
checks = []
claimed = []
for pid in props:
    f = f'{V}/checks/{pid}.json'
    if not os.path.exists(f):
        continue
    cs = json.load(open(f))
    m = cs.get('manifest')
    if not m:
        continue
    claimed.append(pid)
    c = {
        "property_id": pid,
        "quick_cmd": f"bin/check {pid} quick",
        "thorough_cmd": f"bin/check {pid} thorough",
        "evidence_file": f"/verif/evidence/{pid}.json",
        "replay_cmd_template": "bin/symgo replay {path}",
        "engine": "symgo",
        "technique": m["technique"],
        "level_claimed": {"category": "model_checking", "text": m["level_text"], "design_ref": m.get("design_ref", f"DESIGN.md §4 {pid}")},
        "level_note": m["level_note"],
    }
    checks.append(c)
nalist = []
for pid in props:
    if pid in claimed:
        continue
    reason = na.get(pid, "not yet built in this session: no solver-based check is registered for this property")
    nalist.append({"property_id": pid, "reason": reason})
man = {
    "version": 1,
    "setup_cmd": "cd /verif/engine && GOFLAGS=-mod=mod GOPROXY=off GOSUMDB=off GOTOOLCHAIN=local go build -o /verif/bin/symgo .",
    "hooks": {
        "guard": "verif",
        "enable": "none needed: harnesses are injected in-package through the go/packages and `go test -overlay` overlays (virtual files /repo/pkg/<p>/zz_verif_*.go); /repo is modified only by fix: commits",
        "baseline_off_cmd": "cd /repo && GOFLAGS=-mod=mod go test -vet=off -count=1 -timeout 25m ./... && cd website && GOFLAGS=-mod=mod go test -vet=off -count=1 ./...",
        "source_commits": [],
        "add_only": True,
    },
    "engines": [{
        "name": "symgo", "path": "/verif/engine", "serves_properties": claimed,
        "kind_free_text": "own symbolic executor for go/ssa (x/tools v0.29.0) with an SMT back end (z3 4.8.12 over pipes, SMT-LIB2); harnesses in /verif/harness are injected in-package by overlay; every counterexample and one reachability witness per case are replayed natively (go test -overlay) against the real code",
    }],
    "checks": checks,
    "not_applicable": nalist,
    "notes": "All checks: bin/check <id> quick|thorough. Exit 0 = held within the stated bounds; exit 1 + VIOLATION line = natively reproduced counterexample; exit 2 = machinery broken (never reported as violation or success). known_findings.json lists recorded/fixed defects.",
}
json.dump(man, open(f'{V}/MANIFEST.json', 'w'), indent=1)
print("claimed", len(claimed), "na", len(nalist))
