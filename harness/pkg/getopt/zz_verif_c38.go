package getopt

import (
	"unicode/utf8"

	vrt "src.elv.sh/pkg/zzvrt"
)

// Reference reader written from the getopt_long conventions, scanning by
// index. Unknown options are treated as taking an optional argument (the
// package's documented choice).

type verifOpt struct {
	spec    int // index into specs, -1 = unknown
	long    bool
	arg     string
	unkName string
}

var verifShorts = []rune{'a', 'b', 'c'}
var verifLongs = []string{"x", "xy", "z"}

func verifRefLong(s string, ar []Arity) (o verifOpt, needArg bool) {
	eq := -1
	for i := 0; i < len(s); i++ {
		if s[i] == '=' {
			eq = i
			break
		}
	}
	name, arg := s, ""
	if eq >= 0 {
		name, arg = s[:eq], s[eq+1:]
	}
	// exact match of the whole text takes precedence (a long name may not
	// contain '=' here, so this only matters without '=')
	for k, l := range verifLongs {
		if eq < 0 && s == l {
			return verifOpt{spec: k, long: true}, ar[k] == RequiredArgument
		}
		if eq >= 0 && name == l {
			return verifOpt{spec: k, long: true, arg: arg}, false
		}
	}
	return verifOpt{spec: -1, long: true, arg: arg, unkName: name}, false
}

func verifRefShort(s string, ar []Arity) (os []verifOpt, needArg bool) {
	i := 0
	for i < len(s) {
		r, w := utf8.DecodeRuneInString(s[i:])
		k := -1
		for j, sr := range verifShorts {
			if r == sr {
				k = j
			}
		}
		rest := s[i+w:]
		if k < 0 {
			os = append(os, verifOpt{spec: -1, arg: rest, unkName: string(r)})
			return os, false
		}
		if ar[k] == NoArgument {
			os = append(os, verifOpt{spec: k})
			i += w
			continue
		}
		os = append(os, verifOpt{spec: k, arg: rest})
		return os, rest == "" && ar[k] == RequiredArgument
	}
	return os, false
}

func verifRefParse(args []string, ar []Arity, cfg Config) (opts []verifOpt, rest []string, pending bool, stopped bool) {
	for _, a := range args {
		switch {
		case pending:
			opts[len(opts)-1].arg = a
			pending = false
		case stopped:
			rest = append(rest, a)
		case cfg&StopAfterDoubleDash != 0 && a == "--":
			stopped = true
		case len(a) > 2 && a[0] == '-' && a[1] == '-':
			o, need := verifRefLong(a[2:], ar)
			opts = append(opts, o)
			pending = need
		case len(a) > 1 && a[0] == '-' && a != "--":
			if cfg&LongOnly != 0 {
				o, need := verifRefLong(a[1:], ar)
				opts = append(opts, o)
				pending = need
			} else {
				os, need := verifRefShort(a[1:], ar)
				opts = append(opts, os...)
				pending = need
			}
		default:
			rest = append(rest, a)
			if cfg&StopBeforeFirstNonOption != 0 {
				stopped = true
			}
		}
	}
	return
}

func verifSpecs(ar []Arity) []*OptionSpec {
	return []*OptionSpec{
		{Short: 'a', Long: "x", Arity: ar[0]},
		{Short: 'b', Long: "xy", Arity: ar[1]},
		{Short: 'c', Long: "z", Arity: ar[2]},
	}
}

func verifSameOpts(got []*Option, want []verifOpt, specs []*OptionSpec) bool {
	if len(got) != len(want) {
		return false
	}
	for i, g := range got {
		w := want[i]
		if g.Long != w.long || g.Argument != w.arg || g.Unknown != (w.spec < 0) {
			return false
		}
		if w.spec >= 0 {
			if g.Spec != specs[w.spec] {
				return false
			}
		} else if w.long {
			if g.Spec.Long != w.unkName {
				return false
			}
		} else if string(g.Spec.Short) != w.unkName {
			return false
		}
	}
	return true
}

func verifSameStrings(a, b []string) bool {
	if len(a) != len(b) {
		return false
	}
	for i := range a {
		if a[i] != b[i] {
			return false
		}
	}
	return true
}

func verifArgs(l1, l2, l3 int) []string {
	var args []string
	for i, l := range []int{l1, l2, l3} {
		if l >= 0 {
			args = append(args, vrt.Str([]string{"a0", "a1", "a2"}[i], l))
		}
	}
	return args
}

// VerifC38Parse: up to three arguments of the given lengths (-1 = absent).
func VerifC38Parse(l1, l2, l3 int) {
	ar := []Arity{Arity(vrt.Choice("ar0", 3)), Arity(vrt.Choice("ar1", 3)), Arity(vrt.Choice("ar2", 3))}
	cfg := Config(vrt.Choice("cfg", 8))
	args := verifArgs(l1, l2, l3)
	specs := verifSpecs(ar)
	opts, rest, err := Parse(args, specs, cfg)
	wopts, wrest, pending, _ := verifRefParse(args, ar, cfg)
	if pending {
		// the option awaiting its argument is reported through the error only
		vrt.Assert(err != nil, "missing required argument is an error")
		wopts = wopts[:len(wopts)-1]
	}
	vrt.Assert(verifSameOpts(opts, wopts, specs), "options and their arguments as the conventions prescribe")
	vrt.Assert(verifSameStrings(rest, wrest), "non-option arguments as the conventions prescribe")
	unknown := false
	for _, o := range wopts {
		if o.spec < 0 {
			unknown = true
		}
	}
	vrt.Assert((err != nil) == (pending || unknown), "error exactly for a missing argument or an unknown option")
}

// VerifC38Complete: completion interprets all but the last element as parsing does.
func VerifC38Complete(l1, l2, l3 int) {
	ar := []Arity{Arity(vrt.Choice("ar0", 3)), Arity(vrt.Choice("ar1", 3)), Arity(vrt.Choice("ar2", 3))}
	cfg := Config(vrt.Choice("cfg", 8))
	args := verifArgs(l1, l2, l3)
	specs := verifSpecs(ar)
	opts, rest, ctx := Complete(args, specs, cfg)
	wopts, wrest, pending, stopped := verifRefParse(args[:len(args)-1], ar, cfg)
	last := args[len(args)-1]
	if pending {
		vrt.Assert(ctx.Type == OptionArgument && ctx.Option != nil && ctx.Option.Argument == last, "last element completes the pending option's argument")
		wopts = wopts[:len(wopts)-1]
	} else if stopped {
		vrt.Assert(ctx.Type == Argument && ctx.Text == last, "after option parsing stopped the last element is an argument")
	}
	if pending || stopped || ctx.Type != ChainShortOption && ctx.Type != OptionArgument {
		vrt.Assert(verifSameOpts(opts, wopts, specs), "completion parses all but the last element as Parse does")
	} else {
		// the last element contributed chained short options: the earlier ones are a prefix
		vrt.Assert(len(opts) >= len(wopts) && verifSameOpts(opts[:len(wopts)], wopts, specs), "completion parses all but the last element as Parse does (prefix)")
	}
	vrt.Assert(verifSameStrings(rest, wrest), "completion separates non-option arguments as Parse does")
}
