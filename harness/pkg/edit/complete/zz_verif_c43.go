package complete

import (
	"io/fs"
	"os"
	"strings"
	"time"
	"unicode/utf8"

	"src.elv.sh/pkg/eval"
	"src.elv.sh/pkg/eval/vars"
	"src.elv.sh/pkg/parse"
	vrt "src.elv.sh/pkg/zzvrt"
)

func verifFindCompound(n parse.Node, from, to int) *parse.Compound {
	if c, ok := n.(*parse.Compound); ok && c.Range().From == from && c.Range().To == to {
		return c
	}
	for _, ch := range parse.Children(n) {
		if r := ch.Range(); r.From <= from && to <= r.To {
			if c := verifFindCompound(ch, from, to); c != nil {
				return c
			}
		}
	}
	return nil
}

// VerifC43Arg: the buffer is `echo ` followed by a word the user has started
// in bare (0), single-quoted (1) or double-quoted (2) style with n symbolic
// bytes, cursor at the end; the argument generator offers one candidate of m
// symbolic bytes. When completion offers it: the replaced range lies within
// the buffer, the buffer with the insertion text substituted parses, the
// completed word evaluates to exactly the candidate, and the quoting style
// follows the one the user started.
func VerifC43Arg(style, n, m int) {
	seed := vrt.Str("seed", n)
	cand := vrt.Str("cand", m)
	code := "echo " + []string{"", "'", "\""}[style] + seed
	ev := eval.NewEvaler()
	res, err := Complete(CodeBuffer{Content: code, Dot: len(code)}, ev, Config{
		ArgGenerator: func(args []string) ([]RawItem, error) { return []RawItem{PlainItem(cand)}, nil },
	})
	vrt.Reach("completion ran")
	if err != nil || res.Name != "argument" || len(res.Items) == 0 {
		return
	}
	vrt.Assert(len(res.Items) == 1, "one candidate gives one item")
	from, to := res.Replace.From, res.Replace.To
	vrt.Assert(0 <= from && from <= to && to <= len(code), "the replaced range lies within the buffer")
	ins := res.Items[0].ToInsert
	newCode := code[:from] + ins + code[to:]
	tree, perr := parse.Parse(parse.Source{Name: "[v]", Code: newCode}, parse.Config{})
	if _, perr0 := parse.Parse(parse.Source{Name: "[v]", Code: code}, parse.Config{}); perr0 == nil {
		vrt.Assert(perr == nil, "a buffer that parsed still parses with the candidate inserted")
	}
	word := verifFindCompound(tree.Root, from, from+len(ins))
	vrt.Assert(word != nil, "the insertion text is one word of the completed buffer")
	if word != nil {
		val, ok := ev.PurelyEvalCompound(word)
		vrt.Assert(ok && val == cand, "the completed word evaluates to the candidate")
	}
	switch style {
	case 1:
		vrt.Assert(len(ins) > 0 && (ins[0] == '\'' || ins[0] == '"'), "a word started with a quote is completed as a quoted word")
	case 2:
		vrt.Assert(len(ins) > 0 && ins[0] == '"', "a word started with a double quote is completed double-quoted")
	}
}

// VerifC43Var: a global variable with a name of m symbolic bytes (valid UTF-8,
// no colon, not a sigil-like start) exists; the buffer is `echo $` followed by
// n symbolic typed bytes. For the item that stands for that variable: the
// replaced range lies within the buffer and the completed `$name` evaluates to
// the variable's value.
func VerifC43Var(n, m int) {
	name := vrt.Str("name", m)
	vrt.Assume(utf8.ValidString(name))
	for i := 0; i < len(name); i++ {
		vrt.Assume(name[i] != ':' && name[i] != '~')
	}
	// a leading @ is the rest/explode sigil, not part of a name
	vrt.Assume(len(name) == 0 || name[0] != '@')
	seed := vrt.Str("seed", n)
	ev := eval.NewEvaler()
	ev.ExtendGlobal(eval.BuildNs().AddVar(name, vars.NewReadOnly("V")))
	code := "echo $" + seed
	res, err := Complete(CodeBuffer{Content: code, Dot: len(code)}, ev, Config{})
	vrt.Reach("completion ran")
	if err != nil || res.Name != "variable" {
		return
	}
	from, to := res.Replace.From, res.Replace.To
	vrt.Assert(0 <= from && from <= to && to <= len(code), "the replaced range lies within the buffer")
	if len(seed) > 0 && seed[0] == '@' {
		// $@name explodes the variable: the word is not a single value
		return
	}
	want := parse.QuoteVariableName(name)
	for _, item := range res.Items {
		if item.ToInsert != want {
			continue
		}
		newCode := code[:from] + item.ToInsert + code[to:]
		tree, _ := parse.Parse(parse.Source{Name: "[v]", Code: newCode}, parse.Config{})
		word := verifInnermostPrimary(tree.Root, from, from+len(item.ToInsert))
		vrt.Assert(word != nil && word.Type == parse.Variable, "the completed text is a variable use")
		if word != nil {
			vrt.Assert(ev.PurelyEvalPrimary(word) == any("V"), "the completed variable use evaluates to the variable")
		}
	}
}

// verifInnermostPrimary: the smallest primary expression containing [from, to).
func verifInnermostPrimary(n parse.Node, from, to int) *parse.Primary {
	var best *parse.Primary
	if c, ok := n.(*parse.Primary); ok && c.Range().From <= from && to <= c.Range().To {
		best = c
	}
	for _, ch := range parse.Children(n) {
		if r := ch.Range(); r.From <= from && to <= r.To {
			if c := verifInnermostPrimary(ch, from, to); c != nil {
				best = c
			}
		}
	}
	return best
}

// A directory for the file-name generator: in the engine os.ReadDir is served
// by VerifReadDir from this table; natively the same names exist as real
// files in a temporary working directory.
type verifEntry struct{ name string }

func (e verifEntry) Name() string               { return e.name }
func (e verifEntry) IsDir() bool                { return false }
func (e verifEntry) Type() fs.FileMode          { return 0 }
func (e verifEntry) Info() (fs.FileInfo, error) { return verifInfo{e}, nil }

type verifInfo struct{ e verifEntry }

func (i verifInfo) Name() string       { return i.e.name }
func (i verifInfo) Size() int64        { return 0 }
func (i verifInfo) Mode() fs.FileMode  { return 0o644 }
func (i verifInfo) ModTime() time.Time { return time.Time{} }
func (i verifInfo) IsDir() bool        { return false }
func (i verifInfo) Sys() any           { return nil }

var verifDirTable []verifEntry

func VerifReadDir(dir string) ([]os.DirEntry, error) {
	if dir != "." {
		return nil, os.ErrNotExist
	}
	var es []os.DirEntry
	for _, e := range verifDirTable {
		es = append(es, e)
	}
	return es, nil
}

func verifFileNameOK(s string) bool {
	ok := s != "." && s != ".." && len(s) > 0
	for i := 0; i < len(s); i++ {
		ok = vrt.And(ok, vrt.And(s[i] != '/', s[i] != 0))
	}
	return ok
}

// VerifC43Files: the working directory holds two files with symbolic names of
// m bytes; the buffer is `ls ` followed by a single-quoted (style 1) or bare
// (style 0, plain characters only) word of n symbolic bytes. Completion offers
// exactly the entries that start with the typed prefix (dot files exactly when
// the prefix starts with a dot), and each offered item completes to its entry.
func VerifC43Files(style, n, m int) {
	e1, e2 := vrt.Str("e1", m), vrt.Str("e2", m)
	vrt.Assume(vrt.And(verifFileNameOK(e1), verifFileNameOK(e2)))
	vrt.Assume(e1 != e2)
	vrt.Assume(utf8.ValidString(e1) && utf8.ValidString(e2))
	seed := vrt.Str("seed", n)
	vrt.Assume(utf8.ValidString(seed))
	for i := 0; i < len(seed); i++ {
		c := seed[i]
		if style == 0 {
			vrt.Assume(vrt.Or(vrt.Or(vrt.And('a' <= c, c <= 'z'), vrt.And('0' <= c, c <= '9')), vrt.Or(c == '.', vrt.Or(c == '-', c == '_'))))
		} else {
			vrt.Assume(vrt.And(c != '\'', vrt.And(c != '/', c != 0)))
		}
	}
	root := vrt.TempDir()
	vrt.WriteFile(root+"/"+e1, "")
	vrt.WriteFile(root+"/"+e2, "")
	vrt.Chdir(root)
	verifDirTable = []verifEntry{{e1}, {e2}}
	code := "ls " + []string{"", "'"}[style] + seed
	ev := eval.NewEvaler()
	res, err := Complete(CodeBuffer{Content: code, Dot: len(code)}, ev, Config{})
	vrt.RemoveAll(root)
	vrt.Reach("completion ran")
	want := 0
	for _, e := range []string{e1, e2} {
		if strings.HasPrefix(e, seed) && strings.HasPrefix(e, ".") == strings.HasPrefix(seed, ".") {
			want++
		}
	}
	if want == 0 {
		vrt.Assert(err != nil || len(res.Items) == 0, "nothing is offered when no entry starts with the typed prefix")
		return
	}
	if err != nil {
		vrt.Fail("completion failed although entries match: " + err.Error())
		return
	}
	vrt.Assert(len(res.Items) == want, "exactly the directory entries that start with the typed prefix are offered")
	if err != nil {
		return
	}
	from, to := res.Replace.From, res.Replace.To
	vrt.Assert(0 <= from && from <= to && to <= len(code), "the replaced range lies within the buffer")
	for _, item := range res.Items {
		newCode := code[:from] + item.ToInsert + code[to:]
		tree, _ := parse.Parse(parse.Source{Name: "[v]", Code: newCode}, parse.Config{})
		word := verifFindCompound(tree.Root, from, from+len(strings.TrimSuffix(item.ToInsert, " ")))
		vrt.Assert(word != nil, "the insertion text is one word followed by a space")
		if word != nil {
			val, ok := ev.PurelyEvalCompound(word)
			vrt.Assert(ok && (val == e1 || val == e2) && strings.HasPrefix(val, seed), "the completed word evaluates to an entry that starts with the typed prefix")
		}
	}
}
