package edit

import (
	"sort"
	"strings"
	"unicode/utf8"

	"src.elv.sh/pkg/cli/tk"
	vrt "src.elv.sh/pkg/zzvrt"
)

func verifBoundary(s string, i int) bool {
	return 0 <= i && i <= len(s) && (i == len(s) || utf8.RuneStart(s[i]))
}

func verifCmdNames() []string {
	var names []string
	for n := range bufferBuiltinsData {
		names = append(names, n)
	}
	sort.Strings(names)
	return names
}

// verifSameRunes: b is a permutation of a's characters.
func verifSameRunes(a, b string) bool {
	ra, rb := []rune(a), []rune(b)
	if len(ra) != len(rb) || len(a) != len(b) {
		return false
	}
	used := make([]bool, len(rb))
	for _, x := range ra {
		found := false
		for j, y := range rb {
			if !used[j] && x == y {
				used[j], found = true, true
				break
			}
		}
		if !found {
			return false
		}
	}
	return true
}

// VerifC28Cmd: buffer of n symbolic bytes (valid UTF-8), dot on a boundary,
// command number cmd of the sorted builtin table.
func VerifC28Cmd(n, cmd int) {
	names := verifCmdNames()
	vrt.Assert(len(names) == 26, "26 buffer builtins")
	name := names[cmd]
	content := vrt.Str("buf", n)
	vrt.Assume(utf8.ValidString(content))
	dot := vrt.Choice("dot", n+1)
	vrt.Assume(verifBoundary(content, dot))
	buf := &tk.CodeBuffer{Content: content, Dot: dot}
	bufferBuiltinsData[name](buf)
	vrt.Assert(verifBoundary(buf.Content, buf.Dot), "cursor stays inside the buffer on a character boundary")
	vrt.Assert(utf8.ValidString(buf.Content), "buffer stays valid UTF-8")
	switch {
	case strings.HasPrefix(name, "move-"):
		vrt.Assert(buf.Content == content, "motions do not edit")
	case strings.HasPrefix(name, "kill-"):
		// find what the corresponding motion does
		mv := map[string]string{
			"kill-rune-left": "move-dot-left", "kill-rune-right": "move-dot-right",
			"kill-word-left": "move-dot-left-word", "kill-word-right": "move-dot-right-word",
			"kill-small-word-left": "move-dot-left-small-word", "kill-small-word-right": "move-dot-right-small-word",
			"kill-alnum-word-left": "move-dot-left-alnum-word", "kill-alnum-word-right": "move-dot-right-alnum-word",
			"kill-line-left": "move-dot-sol", "kill-line-right": "move-dot-eol"}[name]
		mb := &tk.CodeBuffer{Content: content, Dot: dot}
		bufferBuiltinsData[mv](mb)
		lo, hi := dot, mb.Dot
		if lo > hi {
			lo, hi = hi, lo
		}
		vrt.Assert(buf.Content == content[:lo]+content[hi:], "kill deletes exactly the text between the old and the new cursor")
		vrt.Assert(buf.Dot == lo, "kill leaves the cursor at the gap")
	case strings.HasPrefix(name, "transpose-"):
		vrt.Assert(verifSameRunes(content, buf.Content), "transpose only reorders characters")
	}
	if strings.HasSuffix(name, "-left") || strings.Contains(name, "-left-") || name == "move-dot-sol" || name == "move-dot-up" {
		if !strings.HasPrefix(name, "transpose") {
			vrt.Assert(buf.Dot <= dot, "leftward command does not move right")
		}
	}
	if strings.HasPrefix(name, "move-") && (strings.HasSuffix(name, "-right") || strings.Contains(name, "-right-") || name == "move-dot-eol" || name == "move-dot-down") {
		vrt.Assert(buf.Dot >= dot, "rightward motion does not move left")
	}
}
