package highlight

import (
	"src.elv.sh/pkg/diag"
	"src.elv.sh/pkg/eval"
	"src.elv.sh/pkg/parse"
	"src.elv.sh/pkg/ui"
	vrt "src.elv.sh/pkg/zzvrt"
)

func verifTextOf(t ui.Text) string {
	s := ""
	for _, seg := range t {
		s += seg.Text
	}
	return s
}

// VerifC30: every code of n bytes, no command lookup, no checker.
func VerifC30(n int) {
	code := vrt.Str("code", n)
	text, tips := highlight(code, Config{}, nil)
	vrt.Assert(verifTextOf(text) == code, "highlighted text consists of exactly the code")
	_, err := parse.Parse(parse.Source{Name: "[interactive]", Code: code}, parse.Config{})
	nonPartial := 0
	for _, e := range parse.UnpackErrors(err) {
		if !e.Partial {
			nonPartial++
		}
	}
	vrt.Assert(len(tips) == nonPartial, "one tip per non-partial parse error")
}

// VerifC30Check: with a checker reporting one extra error at a symbolic range.
func VerifC30Check(n int) {
	code := vrt.Str("code", n)
	from, to := vrt.Int("from"), vrt.Int("to")
	vrt.Assume(vrt.And(vrt.And(0 <= from, from <= to), to <= n))
	from, to = vrt.Concrete(from), vrt.Concrete(to)
	partial := vrt.Bool("partial")
	cfg := Config{Check: func(parse.Tree) (string, []*eval.CompilationError) {
		return "", []*eval.CompilationError{{
			Message: "bad", Partial: partial,
			Context: diag.Context{Name: "x", Ranging: diag.Ranging{From: from, To: to}}}}
	}}
	text, _ := highlight(code, cfg, nil)
	vrt.Assert(verifTextOf(text) == code, "highlighted text consists of exactly the code (with checker errors)")
}

// VerifC30Window: seed programs with a symbolic window.
func VerifC30Window(seed, at, w int) {
	c := verifSeeds[seed]
	if at+w > len(c) {
		vrt.Reach("window beyond seed")
		return
	}
	code := c[:at] + vrt.Str("win", w) + c[at+w:]
	text, _ := highlight(code, Config{}, nil)
	vrt.Assert(verifTextOf(text) == code, "highlighted text consists of exactly the code")
}

var verifSeeds = []string{
	"{|a|b}", "?(a)", "\"\\x41\"", "$'a'[0]", "a>&1", "[&k=v]", "{a,b}", "a^\nb", "a|b;c", "~/x*?",
	"f &o=1 a", "'a''b'", "a[1][2..]", "x=1 e $x", "(a) # c", "if a { } else { }", "var x = 1", "for x [a] { }",
}

// VerifC30Late: a Highlighter with command lookup (so results may arrive
// late): nget calls of Get with codes chosen symbolically from a small set,
// the lookup answering symbolically, under every schedule within the
// preemption bound (the "short while" the highlighter waits for the late
// result may or may not be enough). Every immediate result consists of its
// code, and once everything has settled the cached result — which is what a
// late update would show — consists of, and belongs to, the last code.
func VerifC30Late(nget int) {
	codes := []string{"a", "b", "b c", ""}
	hasA, hasB := vrt.Bool("has a"), vrt.Bool("has b")
	hl := NewHighlighter(Config{HasCommand: func(name string) bool {
		if name == "a" {
			return hasA
		}
		return hasB
	}})
	last := ""
	for i := 0; i < nget; i++ {
		code := codes[vrt.Choice("code", len(codes))]
		text, _ := hl.Get(code)
		vrt.Assert(verifTextOf(text) == code, "the immediate result consists of exactly the code asked for")
		last = code
	}
	vrt.Settle()
	hl.cacheMutex.Lock()
	vrt.Assert(hl.cache.code == last, "the cache belongs to the last code")
	vrt.Assert(verifTextOf(hl.cache.styledCode) == last, "a late result is only ever shown for the code it was computed for")
	hl.cacheMutex.Unlock()
	text, _ := hl.Get(last)
	vrt.Assert(verifTextOf(text) == last, "the result delivered later consists of exactly the code")
}
