package edit

import (
	"unicode/utf8"

	"src.elv.sh/pkg/parse"
	vrt "src.elv.sh/pkg/zzvrt"
)

// VerifC02: every valid program of n bytes and every proper prefix cut at a
// character boundary.
func VerifC02(n int) {
	src := vrt.Str("src", n)
	vrt.Assume(utf8.ValidString(src))
	_, err := parse.Parse(parse.Source{Name: "[v]", Code: src}, parse.Config{})
	vrt.Assume(err == nil)
	for k := 0; k < n; k++ {
		if !utf8.RuneStart(src[k]) {
			continue
		}
		p := src[:k]
		_, perr := parse.Parse(parse.Source{Name: "[v]", Code: p}, parse.Config{})
		errs := parse.UnpackErrors(perr)
		for _, e := range errs {
			vrt.Assert(e.Partial, "errors in a prefix of a valid program are partial")
			vrt.Assert(e.Context.From == len(p), "partial errors start at the very end of the input")
		}
		vrt.Assert(isSyntaxComplete(p) == (len(errs) == 0), "Enter keeps reading exactly when the prefix has parse errors")
	}
	vrt.Reach("valid program")
}

var verifC02Seeds = []string{
	"a > b", "a 2> &1", "c <> ^\n r", "e >> f", "a <b", "{|a|b}", "?(a)", "\"\\x41\"", "$'a'[0]", "[&k=v]",
	"{a,b}", "a^\nb", "a|b;c", "f &o=1 a", "'a''b'", "\"\\^A\\101\"", "a[1][2..]", "x=1 e $x", "(a) # c",
	"if a { } else { }", "a > &-", "a [b\nc]", "a {\nb }", "\"\\u0041\"", "a &", "a | b", "try { } catch e { }",
}

// VerifC02Window: a seed program with one byte replaced by a symbolic byte
// (position at; at = -1 keeps the seed as is); if the result is a valid
// program, every proper prefix is checked.
func VerifC02Window(seed, at int) {
	src := verifC02Seeds[seed]
	if at >= len(src) {
		vrt.Reach("window beyond seed")
		return
	}
	if at >= 0 {
		src = src[:at] + vrt.Str("win", 1) + src[at+1:]
	}
	n := len(src)
	vrt.Assume(utf8.ValidString(src))
	_, err := parse.Parse(parse.Source{Name: "[v]", Code: src}, parse.Config{})
	vrt.Assume(err == nil)
	for k := 0; k < n; k++ {
		if !utf8.RuneStart(src[k]) {
			continue
		}
		p := src[:k]
		_, perr := parse.Parse(parse.Source{Name: "[v]", Code: p}, parse.Config{})
		errs := parse.UnpackErrors(perr)
		for _, e := range errs {
			vrt.Assert(e.Partial, "errors in a prefix of a valid program are partial")
			vrt.Assert(e.Context.From == len(p), "partial errors start at the very end of the input")
		}
		vrt.Assert(isSyntaxComplete(p) == (len(errs) == 0), "Enter keeps reading exactly when the prefix has parse errors")
	}
	vrt.Reach("valid program")
}
