package edit

import (
	"unicode/utf8"

	"src.elv.sh/pkg/parse"
	vrt "src.elv.sh/pkg/zzvrt"
)

// VerifC02: every valid program of n bytes and every proper prefix cut at a
// character boundary.
func VerifC02(n int) {
	src := vrt.Str("src", n)
	vrt.Assume(utf8.ValidString(src))
	_, err := parse.Parse(parse.Source{Name: "[v]", Code: src}, parse.Config{})
	vrt.Assume(err == nil)
	for k := 0; k < n; k++ {
		if !utf8.RuneStart(src[k]) {
			continue
		}
		p := src[:k]
		_, perr := parse.Parse(parse.Source{Name: "[v]", Code: p}, parse.Config{})
		errs := parse.UnpackErrors(perr)
		for _, e := range errs {
			vrt.Assert(e.Partial, "errors in a prefix of a valid program are partial")
			vrt.Assert(e.Context.From == len(p), "partial errors start at the very end of the input")
		}
		vrt.Assert(isSyntaxComplete(p) == (len(errs) == 0), "Enter keeps reading exactly when the prefix has parse errors")
	}
	vrt.Reach("valid program")
}
