package edit

import (
	"src.elv.sh/pkg/eval"
	"src.elv.sh/pkg/eval/vals"
	vrt "src.elv.sh/pkg/zzvrt"
)

// VerifC17Getopt: edit:complete-getopt (a pure helper of the editor) with
// every combination of argument lists, option-spec lists and argument-handler
// lists from small adversarial pools: it returns, with or without an error,
// and never panics.
func VerifC17Getopt() {
	nop := eval.NewGoFn("h", func(s string) {})
	argLists := []any{vals.EmptyList, vals.MakeList(""), vals.MakeList("a", ""), vals.MakeList("-a", ""), vals.MakeList("--lo", ""), vals.MakeList("a", "b", "c"), vals.MakeList("--", "x"), "notalist", nil}
	specLists := []any{
		vals.EmptyList,
		vals.MakeList(vals.MakeMap("short", "a")),
		vals.MakeList(vals.MakeMap("long", "long", "arg-required", true, "desc", "d", "arg-desc", "e")),
		vals.MakeList(vals.MakeMap("short", "ab")), vals.MakeList(vals.MakeMap("short", "")), vals.MakeList(vals.EmptyMap),
		vals.MakeList(vals.MakeMap("short", "a", "completer", nop, "arg-optional", true)),
		vals.MakeList("x"), nil,
	}
	handlerLists := []any{vals.EmptyList, vals.MakeList("..."), vals.MakeList(nop), vals.MakeList(nop, "..."), vals.MakeList("...", nop), vals.MakeList("x"), vals.MakeList(nil), nil, "s"}
	a := argLists[vrt.Choice("args", len(argLists))]
	s := specLists[vrt.Choice("specs", len(specLists))]
	h := handlerLists[vrt.Choice("handlers", len(handlerLists))]
	ev := eval.NewEvaler()
	ports, _ := eval.VerifPorts(64)
	ev.Call(eval.NewGoFn("x", func(fm *eval.Frame) error {
		completeGetopt(fm, a, s, h)
		return nil
	}), eval.CallCfg{}, eval.EvalCfg{Ports: ports})
	vrt.Reach("returned")
}
