package glob

import (
	"unicode/utf8"

	vrt "src.elv.sh/pkg/zzvrt"
)

func verifSetAB(r rune) bool { return r == 'a' || r == 'b' }

// verifRefMatch: backtracking reference matcher written from the language
// reference: ? matches one character, * and ** any run of characters (each
// subject to the segment's matchers), literals match themselves.
func verifRefMatch(segs []Segment, name string) bool {
	if len(segs) == 0 {
		return name == ""
	}
	switch seg := segs[0].(type) {
	case Literal:
		n := len(seg.Data)
		return len(name) >= n && name[:n] == seg.Data && verifRefMatch(segs[1:], name[n:])
	case Wild:
		if seg.Type == Question {
			if name == "" {
				return false
			}
			r, n := utf8.DecodeRuneInString(name)
			return seg.Match(r) && verifRefMatch(segs[1:], name[n:])
		}
		// star: try every run length
		rest := name
		for {
			if verifRefMatch(segs[1:], rest) {
				return true
			}
			if rest == "" {
				return false
			}
			r, n := utf8.DecodeRuneInString(rest)
			if !seg.Match(r) {
				return false
			}
			rest = rest[n:]
		}
	}
	return false
}

func verifRef(segs []Segment, name string) bool {
	// no wildcard matches a leading dot unless match-hidden
	if len(name) > 0 && name[0] == '.' && len(segs) > 0 {
		if w, ok := segs[0].(Wild); ok && !w.MatchHidden {
			return false
		}
	}
	return verifRefMatch(segs, name)
}

// VerifC23Match: name of n symbolic bytes (valid UTF-8) against a pattern of
// nseg segments, each symbolically a literal byte, ?, * or **, with symbolic
// match-hidden and an optional character-set matcher.
func VerifC23Match(n, nseg int) {
	name := vrt.Str("name", n)
	vrt.Assume(utf8.ValidString(name))
	var segs []Segment
	for i := 0; i < nseg; i++ {
		// all choices are drawn for every segment so that their names are
		// stable (kind#i, lit#i, wild#i, hidden#i, set#i)
		kind := vrt.Choice("kind", 4)
		l := vrt.Str("lit", 1)
		k := vrt.Choice("wild", 3)
		hidden, set := vrt.Bool("hidden"), vrt.Bool("set")
		if kind == 0 {
			vrt.Assume(l[0] < 0x80) // one-byte literal piece: ASCII
			segs = append(segs, Literal{l})
			continue
		}
		w := Wild{Type: WildType(k), MatchHidden: hidden}
		if set {
			w.Matchers = []func(rune) bool{verifSetAB}
		}
		segs = append(segs, w)
	}
	got := matchElement(segs, name)
	want := verifRef(segs, name)
	vrt.Assert(got == want, "wildcard match verdict equals the reference matcher's")
}
