package vector

import (
	vrt "src.elv.sh/pkg/zzvrt"
)

// verifSame: v behaves like the plain slice m (length, every index, iterator).
func verifSame(v Vector, m []any, what string) {
	vrt.Assert(v != nil && v.Len() == len(m), what+": length")
	if v == nil || v.Len() != len(m) {
		return
	}
	for i := range m {
		x, ok := v.Index(i)
		vrt.Assert(ok && x == m[i], what+": element by index")
	}
	i := 0
	for it := v.Iterator(); it.HasElem(); it.Next() {
		vrt.Assert(i < len(m) && it.Elem() == m[i], what+": element by iteration")
		i++
	}
	vrt.Assert(i == len(m), what+": iteration length")
	_, ok := v.Index(len(m))
	vrt.Assert(!ok, what+": index == length rejected")
	_, ok = v.Index(-1)
	vrt.Assert(!ok, what+": index -1 rejected")
}

func verifBuild(n int) (Vector, []any) {
	var v Vector = Empty
	m := make([]any, 0, n+2)
	for k := 0; k < n; k++ {
		x := vrt.Int("e")
		v = v.Conj(x)
		m = append(m, x)
	}
	return v, m
}

// verifOp applies one operation with symbolic arguments to v (model m) and
// checks the result against the plain-slice model. depth>0 allows slicing.
func verifOp(v Vector, m []any, op int, tag string, depth int) {
	n := len(m)
	switch op {
	case 0: // Index
		i := vrt.Int(tag + "i")
		x, ok := v.Index(i)
		vrt.Assert(ok == vrt.And(0 <= i, i < n), tag+"index accepted iff in range")
		if ok {
			k := vrt.Concrete(i)
			vrt.Assert(0 <= k && k < n && x == m[k], tag+"index returns the element")
		}
	case 1: // Assoc
		i, val := vrt.Int(tag+"i"), vrt.Int(tag+"val")
		r := v.Assoc(i, val)
		valid := vrt.And(0 <= i, i <= n)
		vrt.Assert((r != nil) == valid, tag+"assoc accepted iff 0<=i<=len")
		if r != nil {
			k := vrt.Concrete(i)
			m2 := append(append([]any{}, m...), nil)[:n]
			if k == n {
				m2 = append(m2, val)
			} else if 0 <= k && k < n {
				m2[k] = val
			}
			verifSame(r, m2, tag+"assoc result")
		}
	case 2: // Conj
		val := vrt.Int(tag + "val")
		r := v.Conj(val)
		verifSame(r, append(append([]any{}, m...), val), tag+"conj result")
	case 3: // Pop
		r := v.Pop()
		if n == 0 {
			vrt.Assert(r == nil, tag+"pop of empty rejected")
		} else {
			verifSame(r, m[:n-1], tag+"pop result")
		}
	case 4: // SubVector, then one more operation on the slice
		b, e := vrt.Int(tag+"b"), vrt.Int(tag+"e")
		r := v.SubVector(b, e)
		valid := vrt.And(vrt.And(0 <= b, b <= e), e <= n)
		vrt.Assert((r != nil) == valid, tag+"slice accepted iff 0<=b<=e<=len")
		if r != nil {
			kb, ke := vrt.Concrete(b), vrt.Concrete(e)
			if !(0 <= kb && kb <= ke && ke <= n) {
				return
			}
			sm := m[kb:ke:ke]
			verifSame(r, sm, tag+"slice result")
			if depth > 0 {
				op2 := vrt.Choice(tag+"op2", 5)
				verifOp(r, sm, op2, tag+"s.", depth-1)
			}
		}
	}
}

// VerifC06Ops: a list of n symbolic elements, one operation with symbolic
// arguments (slices get a second operation), then the original is re-checked.
func VerifC06Ops(n, op, depth int) {
	v, m := verifBuild(n)
	verifOp(v, m, op, "", depth)
	verifSame(v, m, "original unchanged")
}

// VerifC06Build: lists of length n built by appends equal their model, and
// popping all the way down retraces it.
func VerifC06Build(n int) {
	v, m := verifBuild(n)
	verifSame(v, m, "built list")
	for k := n; k > 0 && k > n-40; k-- {
		v = v.Pop()
		vrt.Assert(v != nil && v.Len() == k-1, "pop shortens by one")
		if v == nil {
			return
		}
		if k-1 > 0 {
			x, ok := v.Index(k - 2)
			vrt.Assert(ok && x == m[k-2], "last element after pop")
		}
	}
}

// VerifC06TreeSize: treeSize for an arbitrary count.
func VerifC06TreeSize() {
	c := vrt.Int("count")
	vrt.Assume(0 <= c)
	v := &vector{count: c}
	ts := v.treeSize()
	vrt.Assert(vrt.Implies(c < 32, ts == 0), "no tree below 32 elements")
	vrt.Assert(vrt.Implies(c >= 32, vrt.And(vrt.And(ts%32 == 0, ts < c), c-ts <= 32)), "tree holds all but the last 1..32 elements")
}

// VerifC06History: k operations, each applied to a symbolically chosen earlier
// version (persistent branching); every version is re-checked at the end.
func VerifC06History(n, k int) {
	v, m := verifBuild(n)
	versions := []Vector{v}
	models := [][]any{m}
	for step := 0; step < k; step++ {
		src := vrt.Choice("version", len(versions))
		cv, cm := versions[src], models[src]
		var nv Vector
		var nm []any
		switch vrt.Choice("op", 3) {
		case 0:
			val := vrt.Int("val")
			nv, nm = cv.Conj(val), append(append([]any{}, cm...), val)
		case 1:
			if len(cm) == 0 {
				continue
			}
			pos := []int{0, len(cm) / 2, len(cm) - 1}[vrt.Choice("pos", 3)]
			val := vrt.Int("val")
			nv = cv.Assoc(pos, val)
			nm = append([]any{}, cm...)
			nm[pos] = val
		case 2:
			if len(cm) == 0 {
				continue
			}
			nv, nm = cv.Pop(), cm[:len(cm)-1:len(cm)-1]
		}
		vrt.Assert(nv != nil, "operation accepted")
		if nv == nil {
			return
		}
		versions = append(versions, nv)
		models = append(models, nm)
	}
	for i := range versions {
		verifSame(versions[i], models[i], "every version keeps its contents")
	}
}
