package hashmap

import (
	vrt "src.elv.sh/pkg/zzvrt"
)

// Keys carry their own (symbolic) hash so the solver chooses which chunks
// collide; equality is by id.
type verifKey struct{ id, h uint32 }

func verifEq(a, b any) bool  { return a.(verifKey).id == b.(verifKey).id }
func verifHash(k any) uint32 { return k.(verifKey).h }

type verifModel struct {
	present []bool // per key slot; slot 0 is the nil key
	val     []any
}

func (m verifModel) clone() verifModel {
	return verifModel{append([]bool{}, m.present...), append([]any{}, m.val...)}
}

func (m verifModel) len() int {
	n := 0
	for _, p := range m.present {
		if p {
			n++
		}
	}
	return n
}

func verifKeyOf(keys []verifKey, slot int) any {
	if slot == 0 {
		return nil
	}
	return keys[slot]
}

// verifSameMap: mp agrees with the model on Len, Index of every slot and
// iteration (each entry exactly once).
func verifSameMap(mp Map, m verifModel, keys []verifKey, what string) {
	vrt.Assert(mp.Len() == m.len(), what+": size is exact")
	for s := range m.present {
		v, ok := mp.Index(verifKeyOf(keys, s))
		vrt.Assert(ok == m.present[s], what+": lookup finds exactly the present keys")
		if ok && m.present[s] {
			vrt.Assert(v == m.val[s], what+": lookup returns the stored value")
		}
	}
	seen := make([]int, len(m.present))
	total := 0
	for it := mp.Iterator(); it.HasElem(); it.Next() {
		k, v := it.Elem()
		total++
		vrt.Assert(total <= len(m.present), what+": iteration terminates")
		if total > len(m.present) {
			return
		}
		slot := -1
		if k == nil {
			slot = 0
		} else {
			for s := 1; s < len(keys); s++ {
				if k.(verifKey).id == keys[s].id {
					slot = s
				}
			}
		}
		vrt.Assert(slot >= 0 && m.present[slot], what+": iteration yields only present keys")
		if slot >= 0 {
			seen[slot]++
			vrt.Assert(v == m.val[slot], what+": iteration yields the stored value")
		}
	}
	for s := range seen {
		want := 0
		if m.present[s] {
			want = 1
		}
		vrt.Assert(seen[s] == want, what+": iteration yields each entry exactly once")
	}
}

// VerifC07History: nk distinct symbolic keys (+ the nil key), k operations.
func VerifC07History(nk, k int) {
	keys := make([]verifKey, nk+1)
	for s := 1; s <= nk; s++ {
		keys[s] = verifKey{vrt.Uint32("id"), vrt.Uint32("h")}
		for t := 1; t < s; t++ {
			vrt.Assume(keys[s].id != keys[t].id)
		}
	}
	probe := verifKey{vrt.Uint32("probe.id"), vrt.Uint32("probe.h")}
	for s := 1; s <= nk; s++ {
		vrt.Assume(probe.id != keys[s].id)
	}
	mp := New(verifEq, verifHash)
	m := verifModel{make([]bool, nk+1), make([]any, nk+1)}
	versions := []Map{mp}
	models := []verifModel{m.clone()}
	for step := 0; step < k; step++ {
		op := vrt.Choice("op", 2)
		slot := vrt.Choice("slot", nk+1)
		key := verifKeyOf(keys, slot)
		if op == 0 {
			v := vrt.Int("val")
			mp = mp.Assoc(key, v)
			m.present[slot], m.val[slot] = true, v
		} else {
			mp = mp.Dissoc(key)
			m.present[slot], m.val[slot] = false, nil
		}
		verifSameMap(mp, m, keys, "after operation")
		_, ok := mp.Index(probe)
		vrt.Assert(!ok, "a key never inserted is absent")
		versions = append(versions, mp)
		models = append(models, m.clone())
	}
	for i := range versions {
		verifSameMap(versions[i], models[i], keys, "earlier version unchanged")
	}
}

// VerifC07Wide: n keys with distinct low hash chunks (so the root fills up to
// the bitmap->array boundary), then two symbolic operations.
func VerifC07Wide(n int) {
	nk := n + 1
	keys := make([]verifKey, nk+1)
	mp := New(verifEq, verifHash)
	m := verifModel{make([]bool, nk+1), make([]any, nk+1)}
	for s := 1; s <= n; s++ {
		keys[s] = verifKey{uint32(s), uint32(s - 1)}
		mp = mp.Assoc(keys[s], s)
		m.present[s], m.val[s] = true, s
	}
	// one extra key with a symbolic hash
	keys[nk] = verifKey{uint32(1000), vrt.Uint32("h")}
	before, beforeM := mp, m.clone()
	for step := 0; step < 2; step++ {
		op := vrt.Choice("op", 2)
		slot := 1 + vrt.Choice("slot", nk)
		if op == 0 {
			v := vrt.Int("val")
			mp = mp.Assoc(keys[slot], v)
			m.present[slot], m.val[slot] = true, v
		} else {
			mp = mp.Dissoc(keys[slot])
			m.present[slot], m.val[slot] = false, nil
		}
		verifSameMap(mp, m, keys, "after operation")
	}
	verifSameMap(before, beforeM, keys, "earlier version unchanged")
}
