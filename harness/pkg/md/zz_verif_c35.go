package md

import (
	vrt "src.elv.sh/pkg/zzvrt"
)

const verifMdAlphabet = "#*_`>-+ \na[](<!\\10.&;~=:/\"|"

// verifMdInput: n symbolic bytes, each one of the Markdown-significant
// characters of verifMdAlphabet (alpha = 1) or any byte (alpha = 0).
func verifMdInput(n, alpha int) string {
	s := vrt.Str("s", n)
	if alpha == 1 {
		for i := 0; i < len(s); i++ {
			in := false
			for k := 0; k < len(verifMdAlphabet); k++ {
				in = vrt.Or(in, s[i] == verifMdAlphabet[k])
			}
			vrt.Assume(in)
		}
	}
	return s
}

// VerifC35Total: rendering any input of n symbolic bytes to HTML terminates
// without a Go panic.
func VerifC35Total(n, alpha int) {
	s := verifMdInput(n, alpha)
	out := RenderString(s, &HTMLCodec{})
	vrt.Assert(len(out) >= 0, "rendering terminates")
	vrt.Reach("rendered")
}

// VerifC36Fmt: formatting preserves the rendered HTML and is idempotent, for
// inputs the formatter supports.
func VerifC36Fmt(n, alpha int) {
	s := verifMdInput(n, alpha)
	c := &FmtCodec{}
	f1 := RenderString(s, c)
	vrt.Reach("formatted")
	if c.Unsupported() != nil {
		return
	}
	vrt.Assert(RenderString(f1, &HTMLCodec{}) == RenderString(s, &HTMLCodec{}), "the formatted Markdown renders to the same HTML")
	c2 := &FmtCodec{}
	f2 := RenderString(f1, c2)
	vrt.Assert(f2 == f1, "formatting the output again changes nothing")
}

var verifMdSeeds = []string{
	"# a\n", "* a\n* b\n", "1. a\n   b\n", "> a\n> b\n", "`a` *b* **c**\n", "[a](b \"c\")\n",
	"```x\ncode\n```\n", "a\\\nb  \nc\n", "<div>\nx\n</div>\n", "- a\n\n  b\n- c\n", "***\n",
	"&amp; &#35; \\*\n", "![i](u)\n", "<http://a.b>\n", "    code\n\na\n", "a\n===\n", "1) a\n2) b\n", "* `a\n  b`\n",
	"a\n01\\. b\n", "a\n1\\) b\n", "a\n\\- b\n", "a\n\\# b\n", "a\n\\> b\n", "a\n\\+ b\n", "a\n10\\. b\n",
}

// verifMdMutant: seed document with w bytes starting at `at` replaced by
// symbolic bytes from the alphabet.
func verifMdMutant(seed, at, w int) (string, bool) {
	doc := verifMdSeeds[seed]
	if at+w > len(doc) {
		return "", false
	}
	return doc[:at] + verifMdInput(w, 1) + doc[at+w:], true
}

// VerifC35Seed: rendering window mutants of structured seed documents
// terminates without a Go panic.
func VerifC35Seed(seed, at, w int) {
	s, ok := verifMdMutant(seed, at, w)
	if !ok {
		vrt.Reach("rendered")
		return
	}
	out := RenderString(s, &HTMLCodec{})
	vrt.Assert(len(out) >= 0, "rendering terminates")
	vrt.Reach("rendered")
}

// VerifC36Seed: formatting window mutants of structured seed documents
// preserves the rendered HTML and is idempotent (when the formatter reports
// the input as supported).
func VerifC36Seed(seed, at, w int) {
	s, ok := verifMdMutant(seed, at, w)
	if !ok {
		vrt.Reach("formatted")
		return
	}
	c := &FmtCodec{}
	f1 := RenderString(s, c)
	vrt.Reach("formatted")
	if c.Unsupported() != nil {
		return
	}
	vrt.Assert(RenderString(f1, &HTMLCodec{}) == RenderString(s, &HTMLCodec{}), "the formatted Markdown renders to the same HTML")
	c2 := &FmtCodec{}
	f2 := RenderString(f1, c2)
	vrt.Assert(f2 == f1, "formatting the output again changes nothing")
}
