package parse

import (
	vrt "src.elv.sh/pkg/zzvrt"
)

// verifCheckNode checks the lossless-tree invariants below n and returns the
// concatenation of the leaves' texts.
func verifCheckNode(n Node, src string) string {
	r := n.Range()
	vrt.Assert(0 <= r.From && r.From <= r.To && r.To <= len(src), "node range inside the source")
	vrt.Assert(SourceText(n) == src[r.From:r.To], "node text is the source slice of its range")
	children := Children(n)
	if len(children) == 0 {
		return SourceText(n)
	}
	vrt.Assert(children[0].Range().From == r.From, "first child starts where the node starts")
	vrt.Assert(children[len(children)-1].Range().To == r.To, "last child ends where the node ends")
	text := ""
	for i, ch := range children {
		vrt.Assert(Parent(ch) == n, "parent link")
		if i > 0 {
			vrt.Assert(children[i-1].Range().To == ch.Range().From, "children tile the node's range in order")
		}
		text += verifCheckNode(ch, src)
	}
	return text
}

// VerifC01: every byte string of length n.
func VerifC01(n int) {
	src := vrt.Str("src", n)
	tree, err := Parse(Source{Name: "[v]", Code: src}, Config{})
	vrt.Assert(tree.Root != nil, "a tree is returned")
	verifCheckTree(tree, err, src)
}

func verifCheckTree(tree Tree, err error, src string) {
	leaves := verifCheckNode(tree.Root, src)
	end := tree.Root.Range().To
	vrt.Assert(tree.Root.Range().From == 0, "root starts at 0")
	vrt.Assert(leaves == src[:end], "leaves concatenate back to the text the tree covers")
	stopReported := false
	for _, e := range UnpackErrors(err) {
		r := e.Context.Ranging
		vrt.Assert(0 <= r.From && r.From <= r.To && r.To <= len(src), "parse error positioned inside the source")
		vrt.Assert(!e.Partial || r.From == len(src), "partial errors start at the very end of the input")
		if r.From == end {
			stopReported = true
		}
	}
	if end != len(src) {
		// The parser stopped before the end of the input.
		vrt.Assert(stopReported, "an early stop is reported as a parse error at the stopping position")
		vrt.Fail("the tree covers the whole source")
	}
}

// VerifC01Window: a concrete seed program with a window of w symbolic bytes at
// offset at (replacing the bytes there) — one run covers all 256^w mutants.
func VerifC01Window(seed, at, w int) {
	code := verifSeeds[seed]
	if at+w > len(code) {
		vrt.Reach("window beyond seed")
		return
	}
	src := code[:at] + vrt.Str("win", w) + code[at+w:]
	tree, err := Parse(Source{Name: "[v]", Code: src}, Config{})
	verifCheckTree(tree, err, src)
}

var verifSeeds = []string{
	"{|a|b}",
	"?(a)",
	"\"\\x41\"",
	"$'a'[0]",
	"a>&1",
	"[&k=v]",
	"{a,b}",
	"a^\nb",
	"a|b;c",
	"~/x*?",
	"f &o=1 a",
	"'a''b'",
	"\"\\^A\\101\"",
	"a[1][2..]",
	"x=1 e $x",
	"(a) # c",
}
