package parse

import (
	vrt "src.elv.sh/pkg/zzvrt"
)

// verifSingleWord parses code and returns the i-th word of the first form
// (0 = the command head) if the code parses without error as exactly one
// pipeline of one form; ok=false otherwise.
func verifParseForm(code string) (*Form, bool) {
	tree, err := Parse(Source{Name: "[v]", Code: code}, Config{})
	if err != nil {
		return nil, false
	}
	if len(tree.Root.Pipelines) != 1 || len(tree.Root.Pipelines[0].Forms) != 1 {
		return nil, false
	}
	return tree.Root.Pipelines[0].Forms[0], true
}

// verifLiteral: the compound is a single literal word (bareword or quoted
// string, no indexing, no tilde/wildcard/variable/capture) and returns its value.
func verifLiteral(cn *Compound) (string, bool) {
	if cn == nil || len(cn.Indexings) != 1 {
		return "", false
	}
	in := cn.Indexings[0]
	if len(in.Indices) != 0 || in.Head == nil {
		return "", false
	}
	switch in.Head.Type {
	case Bareword, SingleQuoted, DoubleQuoted:
		return in.Head.Value, true
	}
	return "", false
}

// VerifC03Arg: Quote(s) as an argument reads back as the single literal s.
func VerifC03Arg(n int) {
	s := vrt.Str("s", n)
	q := Quote(s)
	f, ok := verifParseForm("echo " + q)
	vrt.Assert(ok, "quoted string parses without error as one form")
	if !ok {
		return
	}
	vrt.Assert(len(f.Args) == 1 && len(f.Redirs) == 0 && len(f.Opts) == 0, "quoted string is exactly one argument")
	if len(f.Args) != 1 {
		return
	}
	v, lit := verifLiteral(f.Args[0])
	vrt.Assert(lit, "quoted string is a single literal word")
	vrt.Assert(v == s, "quoted string reads back as the original bytes")
}

// VerifC03MapKey: Quote(s) as a map key.
func VerifC03MapKey(n int) {
	s := vrt.Str("s", n)
	q := Quote(s)
	f, ok := verifParseForm("echo [&" + q + "=v]")
	vrt.Assert(ok, "quoted map key parses without error")
	if !ok {
		return
	}
	vrt.Assert(len(f.Args) == 1 && len(f.Args[0].Indexings) == 1, "one argument")
	if len(f.Args) != 1 || len(f.Args[0].Indexings) != 1 {
		return
	}
	m := f.Args[0].Indexings[0].Head
	vrt.Assert(m != nil && m.Type == Map && len(m.MapPairs) == 1, "argument is a map with one pair")
	if m == nil || m.Type != Map || len(m.MapPairs) != 1 {
		return
	}
	k, lit := verifLiteral(m.MapPairs[0].Key)
	vrt.Assert(lit && k == s, "map key reads back as the original bytes")
	v, lit2 := verifLiteral(m.MapPairs[0].Value)
	vrt.Assert(lit2 && v == "v", "map value untouched")
}

// VerifC03Cmd: QuoteCommandName(s) in command position.
func VerifC03Cmd(n int) {
	s := vrt.Str("s", n)
	q := QuoteCommandName(s)
	f, ok := verifParseForm(q + " x")
	vrt.Assert(ok, "quoted command name parses without error as one form")
	if !ok {
		return
	}
	vrt.Assert(len(f.Args) == 1, "command with one argument")
	v, lit := verifLiteral(f.Head)
	vrt.Assert(lit && v == s, "command name reads back as the original bytes")
}

// VerifC03Var: $ + QuoteVariableName(s) is a use of the variable named s.
func VerifC03Var(n int) {
	s := vrt.Str("s", n)
	q := QuoteVariableName(s)
	f, ok := verifParseForm("echo $" + q)
	vrt.Assert(ok, "quoted variable name parses without error")
	if !ok {
		return
	}
	vrt.Assert(len(f.Args) == 1 && len(f.Args[0].Indexings) == 1 && len(f.Args[0].Indexings[0].Indices) == 0, "one plain argument")
	if len(f.Args) != 1 || len(f.Args[0].Indexings) != 1 {
		return
	}
	h := f.Args[0].Indexings[0].Head
	vrt.Assert(h != nil && h.Type == Variable && h.Value == s, "variable use whose name is the original bytes")
}

// VerifC03As: QuoteAs honours the requested style or falls back to double quotes.
func VerifC03As(n int) {
	s := vrt.Str("s", n)
	for _, want := range []PrimaryType{SingleQuoted, DoubleQuoted} {
		q, got := QuoteAs(s, want)
		vrt.Assert(got == want || got == DoubleQuoted, "requested quoting style honoured or double-quoted")
		f, ok := verifParseForm("echo " + q)
		vrt.Assert(ok, "QuoteAs output parses")
		if !ok || len(f.Args) != 1 {
			continue
		}
		v, lit := verifLiteral(f.Args[0])
		vrt.Assert(lit && v == s, "QuoteAs output reads back")
		if lit && len(f.Args[0].Indexings) == 1 {
			vrt.Assert(f.Args[0].Indexings[0].Head.Type == got, "reported style is the style used")
		}
	}
}
