package math

import (
	"src.elv.sh/pkg/eval/vals"
	vrt "src.elv.sh/pkg/zzvrt"
)

func verifSmall(tag string, lo, hi int) int {
	v := vrt.Int(tag)
	vrt.Assume(vrt.And(lo <= v, v <= hi))
	return vrt.Concrete(v)
}

// VerifC17Pow: exact base and integer exponent: never a crash; a negative
// power of exact zero is the only case without a value.
func VerifC17Pow() {
	base := verifSmall("base", -3, 3)
	exp := verifSmall("exp", -3, 3)
	r, err := pow(base, exp)
	if base == 0 && exp < 0 {
		vrt.Assert(err != nil, "a negative power of exact 0 raises an exception")
		return
	}
	vrt.Assert(err == nil && r != nil, "pow returns a number")
	if exp >= 0 {
		want := 1
		for i := 0; i < exp; i++ {
			want *= base
		}
		got, ok := vals.FromGo(r).(int)
		vrt.Assert(ok && got == want, "non-negative integer powers of small integers are exact")
	}
}
