package re

import (
	"regexp"
	"strings"
	"unicode/utf8"

	"src.elv.sh/pkg/eval"
	"src.elv.sh/pkg/eval/vars"
	"src.elv.sh/pkg/parse"
	vrt "src.elv.sh/pkg/zzvrt"
)

var verifRePatterns = []string{"a|ab", "a*", "(a)(b)?", "", "b+|a", "x|xa|a"}

func verifReRun(ev *eval.Evaler, code string) ([]any, error) {
	ports, ch := eval.VerifPorts(32)
	err := ev.Eval(parse.Source{Name: "[v]", Code: code}, eval.EvalCfg{Ports: ports})
	var out []any
	for len(ch) > 0 {
		out = append(out, <-ch)
	}
	return out, err
}

// VerifC41Re: re:find, re:split and re:replace run through the real evaluator
// (option scanning and argument conversion included) with the same pattern,
// the same symbolic source over {a, b, x} and the same symbolic &posix and
// &longest options: split pieces and the replaced string must be what
// re:find's match positions imply.
func VerifC41Re(pi, n int) {
	s := vrt.Str("s", n)
	for i := 0; i < len(s); i++ {
		vrt.Assume(vrt.Or(s[i] == 'a', vrt.Or(s[i] == 'b', s[i] == 'x')))
	}
	longest, posix := vrt.Bool("longest"), vrt.Bool("posix")
	ev := eval.NewEvaler()
	ev.ExtendGlobal(eval.BuildNs().AddNs("re", Ns).AddVars(map[string]vars.Var{
		"s": vars.NewReadOnly(s), "l": vars.NewReadOnly(longest), "x": vars.NewReadOnly(posix),
	}))
	pat := parse.Quote(verifRePatterns[pi])
	opts := " &longest=$l &posix=$x "
	found, err := verifReRun(ev, "re:find"+opts+pat+" $s")
	vrt.Assert(err == nil, "re:find succeeds on a valid pattern")
	pieces, err := verifReRun(ev, "re:split"+opts+pat+" $s")
	vrt.Assert(err == nil, "re:split succeeds on a valid pattern")
	repl, err := verifReRun(ev, "re:replace &literal"+opts+pat+" R $s")
	vrt.Assert(err == nil && len(repl) == 1, "re:replace succeeds on a valid pattern")
	vrt.Reach("all three ran")

	// what find's positions imply (the documented rule of regexp.Split: a
	// match ending at 0 contributes no piece; a tail is added unless the last
	// match starts at the end)
	var wantPieces []string
	wantRepl := ""
	beg, end, prev := 0, 0, 0
	for _, f := range found {
		m := f.(matchStruct)
		vrt.Assert(m.Start >= prev && m.Start <= m.End && m.End <= len(s) && m.Text == s[m.Start:m.End], "matches are in order, inside the source, and carry the matched text")
		end = m.Start
		if m.End != 0 {
			wantPieces = append(wantPieces, s[beg:end])
		}
		beg = m.End
		wantRepl += s[prev:m.Start] + "R"
		prev = m.End
	}
	if end != len(s) {
		wantPieces = append(wantPieces, s[beg:])
	}
	wantRepl += s[prev:]
	vrt.Assert(len(pieces) == len(wantPieces), "re:split cuts at exactly the matches re:find reports")
	for i := range wantPieces {
		if i < len(pieces) {
			vrt.Assert(pieces[i] == any(wantPieces[i]), "re:split pieces are the text between re:find's matches")
		}
	}
	if len(repl) == 1 {
		vrt.Assert(repl[0] == any(wantRepl), "re:replace replaces exactly the matches re:find reports")
	}
}

// VerifC41Quote: for every valid UTF-8 string s of n bytes and every text t
// of m bytes, the pattern re:quote gives for s compiles and matches t exactly
// when t contains s literally (re:match is an unanchored search).
func VerifC41Quote(n, m int) {
	s, t := vrt.Str("s", n), vrt.Str("t", m)
	vrt.Assume(utf8.ValidString(s))
	q := regexp.QuoteMeta(s)
	ok, err := match(matchOpts{Posix: vrt.Bool("posix")}, q, t)
	vrt.Assert(err == nil, "a quoted string is a valid pattern")
	vrt.Assert(ok == strings.Contains(t, s), "a quoted pattern matches exactly the literal text")
}
