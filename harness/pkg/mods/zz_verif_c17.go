package mods

import (
	"src.elv.sh/pkg/eval"
	"src.elv.sh/pkg/mods/flag"
	"src.elv.sh/pkg/mods/math"
	"src.elv.sh/pkg/mods/re"
	"src.elv.sh/pkg/mods/str"
	"src.elv.sh/pkg/parse"
	vrt "src.elv.sh/pkg/zzvrt"
)

var verifC17ModPool = []string{
	"''", "a", "-1", "0", "1e400", "NaN", "\"\\xff\"", "9223372036854775808", "-9223372036854775808",
	"[]", "[a b]", "[&]", "[&k=v]", "$nil", "$true", "(num 0.5)", "{ }", "{|x| put $x }", "1/3", "-0.0", "(num -Inf)", "100000000000000000000", "'('", "'\\'",
	"'(a)|b'", "b", "'(x)?y'", "y",
}

var verifC17Mods = []struct {
	name string
	ns   *eval.Ns
}{{"str", str.Ns}, {"math", math.Ns}, {"re", re.Ns}, {"flag", flag.Ns}}

// unbounded results by design
var verifC17ModSkip = map[string]bool{"str:repeat": true}

func verifC17ModNames(only int) []string {
	var names []string
	for mi, m := range verifC17Mods {
		if only >= 0 && mi != only {
			continue
		}
		var fns []string
		m.ns.IterateKeysString(func(k string) {
			if len(k) > 1 && k[len(k)-1] == '~' && !verifC17ModSkip[m.name+":"+k[:len(k)-1]] {
				fns = append(fns, m.name+":"+k[:len(k)-1])
			}
		})
		for i := 1; i < len(fns); i++ {
			for j := i; j > 0 && fns[j] < fns[j-1]; j-- {
				fns[j], fns[j-1] = fns[j-1], fns[j]
			}
		}
		names = append(names, fns...)
	}
	return names
}

// VerifC17Module: every function of the str, math, re and flag modules (or of
// the one with index `only`: 0 str, 1 math, 2 re, 3 flag) called
// through the real evaluator with nargs arguments from the adversarial pool.
func VerifC17Module(nargs, only int) {
	names := verifC17ModNames(only)
	name := names[vrt.Choice("function", len(names))]
	code := name
	for i := 0; i < nargs; i++ {
		arg := verifC17ModPool[vrt.Choice("arg", len(verifC17ModPool))]
		if name == "math:pow" && i == 1 && len(arg) >= 19 && arg[0] != '{' {
			// an exact power with an astronomically large exponent is an
			// unbounded exact computation by design (like str:repeat)
			vrt.Reach("evaluation ended")
			return
		}
		code += " " + arg
	}
	ev := eval.NewEvaler()
	for _, m := range verifC17Mods {
		ev.AddModule(m.name, m.ns)
	}
	ports, _ := eval.VerifPorts(256)
	ev.Eval(parse.Source{Name: "[v]", Code: "use str; use math; use re; use flag\n" + code}, eval.EvalCfg{Ports: ports})
	vrt.Reach("evaluation ended")
}
