package str

import (
	"strings"
	"unicode/utf8"

	"src.elv.sh/pkg/eval"
	vrt "src.elv.sh/pkg/zzvrt"
)

func verifInputs(parts []string) eval.Inputs {
	return func(f func(any)) {
		for _, p := range parts {
			f(p)
		}
	}
}

// VerifC41SplitJoin: joining a split with the same separator gives back the
// original (str:split is strings.SplitN followed by output of the parts).
func VerifC41SplitJoin(n, m int) {
	s, sep := vrt.Str("s", n), vrt.Str("sep", m)
	parts := strings.SplitN(s, sep, -1)
	back, err := join(sep, verifInputs(parts))
	vrt.Assert(err == nil, "join of strings succeeds")
	vrt.Assert(back == s, "joining a split with the same separator gives back the original")
	// replace with the separator itself is the identity
	vrt.Assert(replace(maxOpt{-1}, sep, sep, s) == s, "replacing a string by itself changes nothing")
}

// VerifC41Codepoints: valid UTF-8 -> codepoints -> string is the identity, and
// likewise through bytes.
func VerifC41Codepoints(n int) {
	s := vrt.Str("s", n)
	vrt.Assume(utf8.ValidString(s))
	var cps []int
	for _, r := range s {
		cps = append(cps, int(r))
	}
	back, err := fromCodepoints(cps...)
	vrt.Assert(err == nil && back == s, "codepoints of valid UTF-8 convert back to the original")
	var bs []int
	for i := 0; i < len(s); i++ {
		bs = append(bs, int(s[i]))
	}
	back2, err2 := fromUtf8Bytes(bs...)
	vrt.Assert(err2 == nil && back2 == s, "bytes of valid UTF-8 convert back to the original")
}

// VerifC41InvalidBytes: from-utf8-bytes rejects exactly the invalid sequences.
func VerifC41InvalidBytes(n int) {
	b := vrt.Bytes("b", n)
	var bs []int
	for _, x := range b {
		bs = append(bs, int(x))
	}
	s, err := fromUtf8Bytes(bs...)
	if utf8.Valid(b) {
		vrt.Assert(err == nil && s == string(b), "valid byte sequences are accepted unchanged")
	} else {
		vrt.Assert(err != nil, "invalid byte sequences raise an exception")
	}
}
