package str

import (
	vrt "src.elv.sh/pkg/zzvrt"
)

// VerifC17Repeat: a 4-byte string repeated an arbitrary number of times never
// crashes: negative and overflowing requests must be rejected with an
// exception (requests that fit are outside this harness: they allocate).
func VerifC17Repeat() {
	n := vrt.Int("n")
	vrt.Assume(vrt.Or(n < 0, n > 1<<40))
	_, err := repeat("abcd", n)
	vrt.Assert(vrt.Implies(vrt.Or(n < 0, n > 1<<61), err != nil), "negative or overflowing repeat counts raise an exception")
}

// VerifC17FromCodepoints / FromUtf8Bytes: arbitrary integers never crash.
func VerifC17FromNums() {
	a, b := vrt.Int("a"), vrt.Int("b")
	s, err := fromCodepoints(a, b)
	vrt.Assert(err != nil || len(s) >= 2, "two code points give at least two bytes")
	s2, err2 := fromUtf8Bytes(a, b)
	vrt.Assert(err2 != nil || len(s2) == 2, "two bytes give two bytes")
}
