package wcwidth

import (
	"unicode/utf8"

	vrt "src.elv.sh/pkg/zzvrt"
)

// verifWidth: display width of s by summing OfRune over its runes (invalid
// bytes decode to U+FFFD of width 1, as range-over-string does).
func verifWidth(s string) int {
	w := 0
	for _, r := range s {
		w += OfRune(r)
	}
	return w
}

// VerifC34Trim: s = n arbitrary bytes, wmax unconstrained.
func VerifC34Trim(n int) {
	s := vrt.Str("s", n)
	wmax := vrt.Int("wmax")
	t := Trim(s, wmax)
	k := len(t)
	vrt.Assert(k <= n && t == s[:k], "trim returns a prefix")
	// character boundaries = where Go's decoding of s starts a character
	// (an invalid byte is a character of its own)
	onBoundary := k == n
	for i := range s {
		if i == k {
			onBoundary = true
		}
	}
	vrt.Assert(onBoundary, "trim cuts at a character boundary")
	if k > 0 || wmax >= 0 {
		vrt.Assert(vrt.Or(verifWidth(t) <= wmax, k == 0), "trimmed width does not exceed wmax")
	}
	if k < n {
		// the next character would exceed
		_, size := utf8.DecodeRuneInString(s[k:])
		vrt.Assert(verifWidth(s[:k+size]) > wmax, "trim returns the longest such prefix")
	}
	vrt.Assert(Of(s) == verifWidth(s), "Of sums the character widths")
}

// VerifC34Force: forcing yields exactly the requested width (width >= 0) and
// never crashes for negative widths.
func VerifC34Force(n int) {
	s := vrt.Str("s", n)
	width := vrt.Int("width")
	vrt.Assume(width <= 12) // the padding is materialised; larger widths only add spaces
	f := Force(s, width)
	if width >= 0 {
		vrt.Assert(verifWidth(f) == width, "forced text has exactly the requested width")
	}
	vrt.Reach("force returned")
}

// VerifC34OfRune: the width classes of a single arbitrary code point.
func VerifC34OfRune() {
	r := vrt.Rune("r")
	w := OfRune(r)
	vrt.Assert(vrt.And(0 <= w, w <= 2), "character width is 0, 1 or 2")
	vrt.Assert(vrt.Implies(vrt.And(0x20 <= r, r < 0x7f), w == 1), "printable ASCII has width 1")
	vrt.Assert(vrt.Implies(vrt.And(0 <= r, r < 0x20), w == 0), "C0 controls have width 0")
}
