package lsp

import (
	"unicode/utf8"

	lsp "pkg.nimblebun.works/go-lsp"
	"src.elv.sh/pkg/diag"
	vrt "src.elv.sh/pkg/zzvrt"
)

// verifBoundary: i is at a character boundary of s and not between the CR and
// LF of a CR LF pair.
func verifBoundary(s string, i int) bool {
	if i < 0 || i > len(s) {
		return false
	}
	if i < len(s) && !utf8.RuneStart(s[i]) {
		return false
	}
	if i > 0 && i < len(s) && s[i-1] == '\r' && s[i] == '\n' {
		return false
	}
	return true
}

// verifPos is the LSP position of byte offset idx, written from the LSP
// specification: line = number of line breaks (CR LF, CR or LF) ending at or
// before idx, character = UTF-16 length of the text between the end of the
// last such line break and idx.
func verifPos(s string, idx int) (line, char int) {
	lineStart := 0
	for i := 0; i < idx; i++ {
		switch s[i] {
		case '\n':
			if i > 0 && s[i-1] == '\r' {
				lineStart = i + 1 // second half of CR LF: same break
			} else {
				line++
				lineStart = i + 1
			}
		case '\r':
			line++
			lineStart = i + 1
		}
	}
	for _, r := range s[lineStart:idx] {
		if r > 0xFFFF {
			char += 2
		} else {
			char++
		}
	}
	return
}

func verifLess(l1, c1, l2, c2 int) bool { return l1 < l2 || (l1 == l2 && c1 < c2) }

// VerifC44RoundTrip: every offset of every valid UTF-8 document of n bytes.
func VerifC44RoundTrip(n int) {
	s := vrt.Str("s", n)
	vrt.Assume(utf8.ValidString(s))
	for i := 0; i <= n; i++ {
		if !verifBoundary(s, i) {
			continue
		}
		p := lspPositionFromIdx(s, i)
		l, c := verifPos(s, i)
		vrt.Assert(p.Line == l && p.Character == c, "position of offset follows the LSP definition (UTF-16 units, CR LF one break)")
		back := lspPositionToIdx(s, p)
		vrt.Assert(back == i, "offset -> position -> offset round-trips at character boundaries")
	}
}

// VerifC44AnyPosition: arbitrary (also invalid) positions never crash and are
// clamped to the next valid offset.
func VerifC44AnyPosition(n int) {
	s := vrt.Str("s", n)
	vrt.Assume(utf8.ValidString(s))
	pos := lsp.Position{Line: vrt.Int("line"), Character: vrt.Int("char")}
	idx := lspPositionToIdx(s, pos)
	vrt.Assert(0 <= idx && idx <= n, "index within the document")
	vrt.Assert(idx == n || utf8.RuneStart(s[idx]), "index on a character boundary")
	// minimality: every earlier boundary offset has a strictly smaller position
	for j := 0; j < idx; j++ {
		if verifBoundary(s, j) {
			l, c := verifPos(s, j)
			vrt.Assert(verifLess(l, c, pos.Line, pos.Character), "earlier offsets lie before the requested position")
		}
	}
	if idx < n && verifBoundary(s, idx) {
		l, c := verifPos(s, idx)
		vrt.Assert(!verifLess(l, c, pos.Line, pos.Character), "returned offset is at or after the requested position")
	}
	q := lspPositionFromIdx(s, idx)
	if verifBoundary(s, idx) {
		l, c := verifPos(s, idx)
		vrt.Assert(q.Line == l && q.Character == c, "position of returned offset")
	}
}

// VerifC44Range: ranges (e.g. of parse errors) convert end point by end point.
func VerifC44Range(n int) {
	s := vrt.Str("s", n)
	vrt.Assume(utf8.ValidString(s))
	from, to := vrt.Int("from"), vrt.Int("to")
	vrt.Assume(vrt.And(vrt.And(0 <= from, from <= to), to <= n))
	from, to = vrt.Concrete(from), vrt.Concrete(to)
	vrt.Assume(verifBoundary(s, from) && verifBoundary(s, to))
	r := lspRangeFromRange(s, diag.Ranging{From: from, To: to})
	l1, c1 := verifPos(s, from)
	l2, c2 := verifPos(s, to)
	vrt.Assert(r.Start.Line == l1 && r.Start.Character == c1 && r.End.Line == l2 && r.End.Character == c2, "range converted end point by end point")
}
