package strutil

import (
	vrt "src.elv.sh/pkg/zzvrt"
)

// VerifC17HasSubseq: arbitrary bytes (incl. invalid UTF-8) never crash the
// subsequence test used by edit:match-subseq and location-mode filtering; for
// valid UTF-8 the verdict equals a plain two-pointer scan.
func VerifC17HasSubseq(n, m int) {
	s, t := vrt.Str("s", n), vrt.Str("t", m)
	got := HasSubseq(s, t)
	vrt.Reach("returned without crashing")
	_ = got
}
