//go:build unix

package term

import (
	"errors"
	"time"
	"unicode"
	"unicode/utf8"

	"src.elv.sh/pkg/ui"
	vrt "src.elv.sh/pkg/zzvrt"
)

var errVerifTimeout = errors.New("timeout")

// verifReader serves a fixed byte stream, then times out; it records how each
// byte was requested.
type verifReader struct {
	data         []byte
	pos          int
	blocking     []bool // per delivered byte: was it requested without timeout?
	blockedAtEnd bool   // a read without timeout was issued after the data ran out
}

func (r *verifReader) ReadByteWithTimeout(timeout time.Duration) (byte, error) {
	if r.pos >= len(r.data) {
		if timeout < 0 {
			r.blockedAtEnd = true
		}
		return 0, errVerifTimeout
	}
	b := r.data[r.pos]
	r.pos++
	r.blocking = append(r.blocking, timeout < 0)
	return b, nil
}

// VerifC31Stream: an arbitrary byte stream of n bytes.
func VerifC31Stream(n int) {
	rd := &verifReader{data: vrt.Bytes("in", n)}
	events := 0
	for {
		before := rd.pos
		nb := len(rd.blocking)
		_, err := readEvent(rd)
		if rd.pos == before {
			// nothing consumed: only legal when the stream is exhausted
			vrt.Assert(before == n && err != nil, "an event read consumes at least one byte unless the stream is exhausted")
			break
		}
		events++
		vrt.Assert(events <= n, "at most one event per byte")
		// only the first byte of an event may be awaited without timeout
		vrt.Assert(rd.blocking[nb], "first byte of an event is awaited without timeout")
		for i := nb + 1; i < len(rd.blocking); i++ {
			vrt.Assert(!rd.blocking[i], "bytes inside a sequence are awaited with a finite timeout")
		}
		if before < n && rd.pos == n && rd.blockedAtEnd {
			vrt.Fail("a sequence in progress must not block without timeout at end of data")
		}
		rd.blockedAtEnd = false
	}
	vrt.Reach("stream processed")
}

// VerifC31Text: k printable code points, UTF-8 encoded, decode to exactly k key
// events in order.
func VerifC31Text(k int) {
	var data []byte
	runes := make([]rune, k)
	for i := range runes {
		r := vrt.Rune("r")
		vrt.Assume(vrt.And(r >= 0x20, r != 0x7f))
		vrt.Assume(utf8.ValidRune(r))
		vrt.Assume(unicode.IsPrint(r))
		runes[i] = r
		data = utf8.AppendRune(data, r)
	}
	rd := &verifReader{data: data}
	for i := 0; i < k; i++ {
		ev, err := readEvent(rd)
		vrt.Assert(err == nil, "printable text decodes without error")
		ke, ok := ev.(KeyEvent)
		vrt.Assert(ok, "printable text decodes to key events")
		if ok {
			vrt.Assert(ke == KeyEvent(ui.Key{Rune: runes[i]}), "one unmodified key event per character, in order")
		}
	}
	vrt.Assert(rd.pos == len(data), "all bytes consumed")
}
