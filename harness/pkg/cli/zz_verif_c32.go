package cli

import (
	"runtime"

	vrt "src.elv.sh/pkg/zzvrt"
)

// VerifC32: an environment goroutine performs nops symbolic operations
// (Input / Redraw(full?) / Return) followed by a final Return, concurrently
// with the loop; every schedule within the preemption bound is explored.
func VerifC32(nops int) {
	lp := newLoop()
	returned := false
	var handled []int
	var redraws []redrawFlag
	inHandler := false
	lp.HandleCb(func(e event) {
		vrt.Assert(!inHandler, "events are handled one at a time")
		inHandler = true
		handled = append(handled, e.(int))
		runtime.Gosched() // handling takes time: other goroutines may run meanwhile
		inHandler = false
	})
	lp.RedrawCb(func(f redrawFlag) {
		vrt.Assert(!inHandler, "no redraw while an event is being handled")
		redraws = append(redraws, f)
		if f&finalRedraw != 0 {
			returned = true // requests arriving from now on come too late to be served
		}
		runtime.Gosched() // drawing takes time: requests may arrive meanwhile
	})
	var sent []int
	firstReturn := ""
	type req struct {
		at   int // number of redraws started when the request completed
		full bool
	}
	var reqs []req
	go func() {
		for i := 0; i < nops; i++ {
			switch vrt.Choice("op", 3) {
			case 0:
				lp.Input(i)
				sent = append(sent, i)
			case 1:
				full := vrt.Bool("full")
				lp.Redraw(full)
				if !returned {
					reqs = append(reqs, req{len(redraws), full})
				}
			case 2:
				if firstReturn == "" {
					firstReturn = string(rune('a' + i))
				}
				lp.Return(string(rune('a'+i)), nil)
			}
		}
		if firstReturn == "" {
			firstReturn = "z"
		}
		lp.Return("z", nil)
	}()
	buf, err := lp.Run()
	returned = true
	vrt.Assert(err == nil && buf == firstReturn, "the loop returns the first committed Return")
	// handled events are a prefix of the sent events, in order
	vrt.Assert(len(handled) <= len(sent), "only sent events are handled")
	for i := range handled {
		if i < len(sent) {
			vrt.Assert(handled[i] == sent[i], "events are handled in the order they were sent, each once")
		}
	}
	// exactly one final redraw, and it is the last callback
	n := len(redraws)
	vrt.Assert(n >= 1 && redraws[n-1]&finalRedraw != 0, "the last redraw is the final redraw")
	for i := 0; i+1 < n; i++ {
		vrt.Assert(redraws[i]&finalRedraw == 0, "exactly one final redraw")
	}
	// no redraw request is lost
	for _, r := range reqs {
		vrt.Assert(r.at < n, "a redraw request completed before the loop returned is followed by a redraw")
		if r.full {
			for i := r.at; i < n; i++ {
				if redraws[i]&finalRedraw == 0 {
					vrt.Assert(redraws[i]&fullRedraw != 0, "the redraw serving a full-redraw request is a full redraw")
					break
				}
			}
		}
	}
}
