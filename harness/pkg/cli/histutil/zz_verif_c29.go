package histutil

import (
	"src.elv.sh/pkg/store/storedefs"
	vrt "src.elv.sh/pkg/zzvrt"
)

func verifText(tag string) string {
	s := vrt.Str(tag, 2)
	vrt.Assume(vrt.And(vrt.Or(s[0] == 'a', s[0] == 'b'), vrt.Or(s[1] == 'a', s[1] == 'b')))
	return s
}

func verifHasPrefix(s, p string) bool { return len(s) >= len(p) && s[:len(p)] == p }

// VerifC29Walk: ns commands stored before the session, then a symbolic
// interleaving of na session additions and no additions by other sessions,
// a prefix of plen symbolic bytes, and a walk of `steps` symbolic Prev/Next
// moves; dedup selects the de-duplicating cursor.
func VerifC29Walk(ns, na, no, plen, steps, dedup int) {
	var stored []string
	for i := 0; i < ns; i++ {
		stored = append(stored, verifText("stored"))
	}
	db := NewFaultyInMemoryDB(stored...)
	st, err := NewHybridStore(db)
	vrt.Assert(err == nil, "store created")
	view := append([]string{}, stored...) // the session's view, oldest first
	for a, o := na, no; a > 0 || o > 0; {
		mine := a > 0 && (o == 0 || vrt.Bool("mine"))
		t := verifText("added")
		if mine {
			st.AddCmd(storedefs.Cmd{Text: t, Seq: -1})
			view = append(view, t)
			a--
		} else {
			db.AddCmd(t) // another session writes to the shared database
			o--
		}
	}
	prefix := vrt.Str("prefix", plen)
	// oracle list: matching commands of the session's view, oldest first
	var list []string
	for _, t := range view {
		if verifHasPrefix(t, prefix) {
			list = append(list, t)
		}
	}
	if dedup == 1 {
		// keep each distinct text once, at its most recent occurrence
		var d []string
		for i, t := range list {
			later := false
			for _, u := range list[i+1:] {
				if u == t {
					later = true
				}
			}
			if !later {
				d = append(d, t)
			}
		}
		list = d
	}
	c := st.Cursor(prefix)
	if dedup == 1 {
		c = NewDedupCursor(c)
	}
	pos := len(list)
	check := func() {
		cmd, err := c.Get()
		if 0 <= pos && pos < len(list) {
			vrt.Assert(err == nil && cmd.Text == list[pos], "cursor is at the expected command")
		} else {
			vrt.Assert(err == ErrEndOfHistory, "stepping past either end reports end of history")
		}
	}
	check()
	for s := 0; s < steps; s++ {
		if vrt.Bool("prev") {
			c.Prev()
			if pos >= 0 {
				pos--
			}
		} else {
			c.Next()
			if pos < len(list) {
				pos++
			}
		}
		check()
	}
}
