package eval

import (
	"context"
	"errors"
	"math"
	"runtime"

	"src.elv.sh/pkg/eval/vals"
	"src.elv.sh/pkg/parse"
	vrt "src.elv.sh/pkg/zzvrt"
)

var errVerifFail = errors.New("callback failed")

// verifTask is a Callable that records start/end events and finishes with a
// chosen outcome: 0 ok, 1 break, 2 failure.
type verifTask struct {
	outcome    []int
	started    []int
	ended      []int
	running    int
	maxRunning int
	afterStop  bool // a callback started after a break/failure had completed
	stopped    bool
}

func (t *verifTask) Call(fm *Frame, args []any, opts map[string]any) error {
	id := args[0].(int)
	if t.stopped {
		t.afterStop = true
	}
	t.started = append(t.started, id)
	t.running++
	if t.running > t.maxRunning {
		t.maxRunning = t.running
	}
	runtime.Gosched() // let other callbacks overlap with this one
	t.running--
	t.ended = append(t.ended, id)
	switch t.outcome[id] {
	case 1:
		t.stopped = true
		return &exception{Break, nil}
	case 2:
		t.stopped = true
		return &exception{errVerifFail, nil}
	}
	return nil
}

func verifCtxFrame() *Frame {
	return &Frame{ctx: context.Background(), src: parse.Source{Name: "[v]", Code: "x"}, ports: []*Port{{}, {}, {}}}
}

// VerifC20Peach: n inputs, worker bound kind (0: 1 worker, 1: 2 workers,
// 2: unlimited), symbolic outcome per callback, all schedules.
func VerifC20Peach(n, kind int) {
	t := &verifTask{outcome: make([]int, n)}
	anyStop := false
	for i := range t.outcome {
		t.outcome[i] = vrt.Choice("outcome", 3)
		if t.outcome[i] != 0 {
			anyStop = true
		}
	}
	var bound vals.Num
	limit := n + 1
	switch kind {
	case 0:
		bound, limit = 1, 1
	case 1:
		bound, limit = 2, 2
	default:
		bound = math.Inf(1)
	}
	inputs := func(f func(any)) {
		for i := 0; i < n; i++ {
			f(i)
		}
	}
	err := peach(verifCtxFrame(), peachOpt{NumWorkers: bound}, t, inputs)
	vrt.Assert(t.running == 0 && len(t.ended) == len(t.started), "peach returns only after every started callback has ended")
	seen := make([]int, n)
	for _, id := range t.started {
		seen[id]++
	}
	failed := false
	for i := 0; i < n; i++ {
		vrt.Assert(seen[i] <= 1, "each input's callback runs at most once")
		if !anyStop {
			vrt.Assert(seen[i] == 1, "without break or failure every input's callback runs exactly once")
		}
		if seen[i] == 1 && t.outcome[i] == 2 {
			failed = true
		}
	}
	vrt.Assert(t.maxRunning <= limit, "the number of running callbacks never exceeds num-workers")
	vrt.Assert((err != nil) == failed, "peach fails exactly when a callback that ran failed")
	if kind == 0 {
		// one worker: equivalent to each
		for i, id := range t.started {
			vrt.Assert(id == i, "one-worker peach runs the callbacks in input order")
		}
		vrt.Assert(!t.afterStop, "one-worker peach runs no callback after a break or failure (as each does)")
	}
}

// VerifC20NumWorkers: parsing of &num-workers.
func VerifC20NumWorkers(kind int) {
	switch kind {
	case 0:
		i := vrt.Int("n")
		w, limited, err := parseNumWorkers(i)
		if i >= 1 {
			vrt.Assert(err == nil && limited && w == i, "positive integers are a limit")
		} else {
			vrt.Assert(err != nil, "zero and negative integers are rejected")
		}
	default:
		f := []float64{math.Inf(1), math.Inf(-1), math.NaN(), 1.0, 0.5, 0}[kind-1]
		_, limited, err := parseNumWorkers(f)
		vrt.Assert((err == nil) == math.IsInf(f, 1), "the only accepted float is +inf")
		vrt.Assert(err != nil || !limited, "+inf means no limit")
	}
}

// VerifC20RunParallel: every function runs exactly once and all failures are reported.
func VerifC20RunParallel(n int) {
	t := &verifTask{outcome: make([]int, n)}
	fails := 0
	var fns []Callable
	for i := range t.outcome {
		if vrt.Bool("fails") {
			t.outcome[i] = 2
			fails++
		}
		fns = append(fns, verifBound{t, i})
	}
	err := runParallel(verifCtxFrame(), fns...)
	vrt.Assert(len(t.started) == n && len(t.ended) == n && t.running == 0, "run-parallel runs every function exactly once and waits for all")
	vrt.Assert((err != nil) == (fails > 0), "run-parallel fails exactly when some function failed")
	if pe, ok := Reason(err).(PipelineError); ok {
		cnt := 0
		for _, e := range pe.Errors {
			// stages that succeeded are listed as OK (an exception with no reason)
			if e != nil && e.Reason() != nil {
				cnt++
			}
		}
		vrt.Assert(cnt == fails, "every failure is present in the reported error")
	}
}

type verifBound struct {
	t  *verifTask
	id int
}

func (b verifBound) Call(fm *Frame, args []any, opts map[string]any) error {
	return b.t.Call(fm, []any{b.id}, opts)
}
