package vals

import (
	"math"
	"math/big"

	vrt "src.elv.sh/pkg/zzvrt"
)

func verifDigit(c byte, base int) int {
	d := -1
	switch {
	case '0' <= c && c <= '9':
		d = int(c - '0')
	case 'a' <= c && c <= 'f':
		d = int(c-'a') + 10
	case 'A' <= c && c <= 'F':
		d = int(c-'A') + 10
	}
	if d >= base {
		return -1
	}
	return d
}

// verifRefInt: the documented integer syntaxes (decimal, 0x / 0o / 0b in any
// letter case, a leading 0 meaning octal, single underscores between digits,
// an optional minus sign). verdict: 1 = documented integer with value v,
// 0 = certainly not a number, -1 = outside what the reference decides (looks
// like a float or uses forms the documentation does not mention).
func verifRefInt(s string) (verdict, v int) {
	for i := 0; i < len(s); i++ {
		switch s[i] {
		case '.', 'e', 'E', 'p', 'P', 'i', 'I', 'n', 'N', '+', '/':
			return -1, 0
		}
	}
	neg := false
	if len(s) > 0 && s[0] == '-' {
		neg = true
		s = s[1:]
	}
	base := 10
	if len(s) >= 2 && s[0] == '0' {
		switch s[1] {
		case 'x', 'X':
			base, s = 16, s[2:]
		case 'o', 'O':
			base, s = 8, s[2:]
		case 'b', 'B':
			base, s = 2, s[2:]
		default:
			base, s = 8, s[1:]
			if len(s) > 0 && s[0] == '_' {
				return -1, 0 // 0_7: underscore after the octal zero, not documented
			}
			for i := 0; i < len(s); i++ {
				if s[i] == '8' || s[i] == '9' {
					// 08: "leading zeros mean octal, subject to change"; what a
					// non-octal digit then means is not documented
					return -1, 0
				}
			}
		}
		if len(s) > 0 && s[0] == '_' {
			return -1, 0 // underscore directly after a base prefix: not documented
		}
	}
	if len(s) == 0 {
		return 0, 0
	}
	prevDigit := false
	for i := 0; i < len(s); i++ {
		if s[i] == '_' {
			if !prevDigit || i == len(s)-1 {
				return 0, 0
			}
			prevDigit = false
			continue
		}
		d := verifDigit(s[i], base)
		if d < 0 {
			return 0, 0
		}
		v = v*base + d
		prevDigit = true
	}
	if neg {
		v = -v
	}
	return 1, v
}

// VerifC05Int: every string of n symbolic bytes: when it is an integer in a
// documented syntax, ParseNum gives exactly that value as a machine int; when
// it is certainly not a number, ParseNum gives nil.
func VerifC05Int(n int) {
	s := vrt.Str("s", n)
	verdict, v := verifRefInt(s)
	vrt.Assume(verdict >= 0)
	got := ParseNum(s)
	if verdict == 1 {
		i, ok := got.(int)
		vrt.Assert(ok && i == v, "an integer literal in a documented syntax parses to its value as an exact integer")
	} else {
		vrt.Assert(got == nil, "a string that is not a number in any syntax is rejected")
	}
}

// VerifC05Rat: a/b with single-digit symbolic numerator and denominator
// bytes: the value is the exact quotient in canonical form (an int when the
// division is exact, a normalised rational otherwise), and a zero denominator
// is rejected.
func VerifC05Rat() {
	a, b := vrt.Byte("a"), vrt.Byte("b")
	vrt.Assume(vrt.And(vrt.And('0' <= a, a <= '9'), vrt.And('0' <= b, b <= '9')))
	s := string([]byte{a, '/', b})
	got := ParseNum(s)
	x, y := int(a-'0'), int(b-'0')
	if y == 0 {
		vrt.Assert(got == nil, "a rational with a zero denominator is rejected")
		return
	}
	if x%y == 0 {
		i, ok := got.(int)
		vrt.Assert(ok && i == x/y, "an integral rational is normalised to an exact integer")
		return
	}
	r, ok := got.(*big.Rat)
	vrt.Assert(ok, "a non-integral rational stays a rational")
	if ok {
		vrt.Assert(r.Cmp(big.NewRat(int64(x), int64(y))) == 0, "the rational has the exact value")
	}
}

// VerifC05Canonical: canonical forms of exact numbers: a big integer of up to
// two symbolic words becomes a machine int exactly when it fits; Int64ToNum
// and Uint64ToNum likewise; a rational with denominator 1 becomes an integer.
func VerifC05Canonical(k int) {
	switch k {
	case 0:
		w0, w1 := vrt.Uint64("w0"), vrt.Uint64("w1")
		z := new(big.Int).SetBits([]big.Word{big.Word(w0), big.Word(w1)})
		neg := vrt.Bool("neg")
		if neg {
			z.Neg(z)
		}
		fits := w1 == 0 && (w0 <= 1<<63-1 || (neg && w0 == 1<<63))
		got := NormalizeBigInt(z)
		i, isInt := got.(int)
		vrt.Assert(isInt == fits, "a big integer is normalised to a machine int exactly when it fits")
		if isInt && fits {
			want := int(w0)
			if neg {
				want = -want
			}
			vrt.Assert(i == want, "the machine int has the same value")
		}
	case 1:
		x := vrt.Int64("x")
		i, ok := Int64ToNum(x).(int)
		vrt.Assert(ok && int64(i) == x, "an int64 is an exact machine int")
		u := vrt.Uint64("u")
		got := Uint64ToNum(u)
		i2, isInt := got.(int)
		vrt.Assert(isInt == (u <= 1<<63-1), "a uint64 is a machine int exactly when it fits")
		if isInt {
			vrt.Assert(uint64(i2) == u, "same value")
		} else if b, isBig := got.(*big.Int); isBig {
			vrt.Assert(b.IsUint64() && b.Uint64() == u, "same value as a big integer")
		}
	case 2:
		x := vrt.Int64("x")
		vrt.Assume(x != 0)
		r := vrt.MakeRat(x, 1)
		i, ok := NormalizeBigRat(r).(int)
		vrt.Assert(ok && int64(i) == x, "a rational with denominator 1 is normalised to an integer")
	}
}

func verifC05Big(s string) *big.Int {
	z, _ := new(big.Int).SetString(s, 10)
	return z
}

// VerifC05RoundTrip: num(to-string x) gives back x with the same type and
// bits for a pool of adversarial typed numbers (concrete: digit generation is
// strconv's and math/big's).
func VerifC05RoundTrip(k int) {
	pool := []any{
		0, -1, math.MaxInt64, math.MinInt64,
		verifC05Big("9223372036854775808"), verifC05Big("-9223372036854775809"), verifC05Big("100000000000000000000"),
		big.NewRat(1, 3), big.NewRat(-22, 7), new(big.Rat).SetFrac(verifC05Big("100000000000000000001"), verifC05Big("3")),
		0.0, math.Copysign(0, -1), math.NaN(), math.Inf(1), math.Inf(-1), 1e21, 1e20, 1e-7, 1e-5, 0.1, 123456789.125, 5e-324, 1.7976931348623157e308, 1.0, -2.5e-10,
	}
	x := pool[k]
	got := ParseNum(ToString(x))
	switch x := x.(type) {
	case int:
		g, ok := got.(int)
		vrt.Assert(ok && g == x, "machine ints survive to-string / num")
	case *big.Int:
		g, ok := got.(*big.Int)
		vrt.Assert(ok && g.Cmp(x) == 0, "big integers survive to-string / num")
	case *big.Rat:
		g, ok := got.(*big.Rat)
		vrt.Assert(ok && g.Cmp(x) == 0, "rationals survive to-string / num")
	case float64:
		g, ok := got.(float64)
		vrt.Assert(ok, "floats stay floats through to-string / num")
		if x != x {
			vrt.Assert(g != g, "NaN stays NaN")
		} else {
			vrt.Assert(math.Float64bits(g) == math.Float64bits(x), "floats are bit-identical through to-string / num (sign of zero included)")
		}
	}
}
