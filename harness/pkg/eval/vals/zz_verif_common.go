package vals

import (
	"math/big"

	vrt "src.elv.sh/pkg/zzvrt"
)

// Kinds of symbolic Elvish values built by the harnesses.
const (
	vkInt = iota
	vkFloat
	vkBigInt
	vkBigRat
	vkBool
	vkString
	vkNil
	vkList
	vkNumKinds = 4
)

// verifBigInt: a canonical big integer (outside the int range) of up to two
// 64-bit words with symbolic content and sign.
func verifBigInt(tag string) *big.Int {
	w0, w1 := vrt.Uint64(tag+".w0"), vrt.Uint64(tag+".w1")
	z := new(big.Int).SetBits([]big.Word{big.Word(w0), big.Word(w1)})
	if vrt.Bool(tag + ".neg") {
		z.Neg(z)
	}
	vrt.Assume(!z.IsInt64()) // canonical: big only beyond the machine range
	return z
}

// verifBigRat: a canonical non-integral rational num/den with a denominator
// from {2, 3, 5} and num = den*q + r, 0 < r < den, q a symbolic 16-bit integer
// (so num is never a multiple of the prime den: lowest terms, non-integral;
// written this way because a symbolic `num % den != 0` needs a 64-bit divider
// circuit in the solver).
func verifBigRat(tag string) *big.Rat {
	den := int64(2 + vrt.Choice(tag+".den", 3))
	if den == 4 {
		den = 5
	}
	r := int64(1 + vrt.Choice(tag+".r", int(den-1)))
	// q: 16-bit signed (wider numerators make the solver's multiplier
	// circuits in Rat.Cmp time out; stated as the bound)
	q := int64(int16(uint16(vrt.Byte(tag+".q0")) | uint16(vrt.Byte(tag+".q1"))<<8))
	return vrt.MakeRat(den*q+r, den)
}

func verifValue(tag string, kind int, strLen int) any {
	switch kind {
	case vkInt:
		return vrt.Int(tag)
	case vkFloat:
		return vrt.Float64(tag)
	case vkBigInt:
		return verifBigInt(tag)
	case vkBigRat:
		return verifBigRat(tag)
	case vkBool:
		return vrt.Bool(tag)
	case vkString:
		return vrt.Str(tag, strLen)
	case vkNil:
		return nil
	}
	panic("bad kind")
}
