package vals

import (
	vrt "src.elv.sh/pkg/zzvrt"
)

// VerifC08Pair: two symbolic values of the given kinds; eq implies same hash.
func VerifC08Pair(ka, kb, strLen int) {
	a := verifValue("a", ka, strLen)
	b := verifValue("b", kb, strLen)
	eq := Equal(a, b)
	vrt.Assert(eq == Equal(b, a), "eq is symmetric")
	vrt.Assume(eq)
	vrt.Assert(Hash(a) == Hash(b), "eq values hash identically")
}

// VerifC08List: lists of two elements of the given kinds.
func VerifC08List(ka, kb int) {
	a := MakeList(verifValue("a0", ka, 1), verifValue("a1", kb, 1))
	b := MakeList(verifValue("b0", ka, 1), verifValue("b1", kb, 1))
	vrt.Assume(Equal(a, b))
	vrt.Assert(Hash(a) == Hash(b), "eq lists hash identically")
}

// VerifC08Map: two-entry maps built in both insertion orders, symbolic keys
// and values of the given kinds.
func VerifC08Map(kk, kv int) {
	k0, k1 := verifValue("k0", kk, 1), verifValue("k1", kk, 1)
	v0, v1 := verifValue("v0", kv, 1), verifValue("v1", kv, 1)
	a := EmptyMap.Assoc(k0, v0).Assoc(k1, v1)
	b := EmptyMap.Assoc(k1, v1).Assoc(k0, v0)
	vrt.Assume(!Equal(k0, k1))
	// values that are not eq to themselves (NaN) are excluded by the statement
	vrt.Assume(vrt.And(vrt.And(Equal(k0, k0), Equal(k1, k1)), vrt.And(Equal(v0, v0), Equal(v1, v1))))
	vrt.Assert(Equal(a, b), "maps built in different insertion orders are eq")
	vrt.Assert(Hash(a) == Hash(b), "eq maps hash identically")
}
