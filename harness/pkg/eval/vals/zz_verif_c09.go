package vals

import (
	"math"
	"math/big"

	vrt "src.elv.sh/pkg/zzvrt"
)

func verifLE(o Ordering) bool { return o == CmpLess || o == CmpEqual }

func verifIsNaN(v any) bool {
	f, ok := v.(float64)
	return ok && f != f
}

// VerifC09Laws: algebraic laws of eq and compare over triples.
func VerifC09Laws(ka, kb, kc int) {
	a, b, c := verifValue("a", ka, 2), verifValue("b", kb, 2), verifValue("c", kc, 2)
	eab := Equal(a, b)
	vrt.Assert(eab == Equal(b, a), "eq is symmetric")
	vrt.Assert(vrt.Implies(vrt.And(eab, Equal(b, c)), Equal(a, c)), "eq is transitive")
	vrt.Assert(vrt.Or(Equal(a, a), verifIsNaN(a)), "eq is reflexive except for NaN")

	cab, cba := Cmp(a, b), Cmp(b, a)
	vrt.Assert(vrt.Implies(eab, cab == CmpEqual), "compare outputs 0 for eq values")
	vrt.Assert((cab == CmpLess) == (cba == CmpMore), "compare is antisymmetric (less/more)")
	vrt.Assert((cab == CmpEqual) == (cba == CmpEqual), "compare is antisymmetric (equal)")
	vrt.Assert((cab == CmpUncomparable) == (cba == CmpUncomparable), "uncomparable is symmetric")
	cbc, cac := Cmp(b, c), Cmp(a, c)
	if verifLE(cab) && verifLE(cbc) {
		vrt.Assert(verifLE(cac), "compare is transitive")
		if cab == CmpLess || cbc == CmpLess {
			vrt.Assert(cac == CmpLess, "compare is transitive (strict)")
		}
	}
}

// verifExactCmp: comparison by mathematical value, NaN equal to NaN and below
// everything; ok=false where the harness has no exact oracle.
func verifExactCmp(a, b any) (o Ordering, ok bool) {
	switch a := a.(type) {
	case int:
		switch b := b.(type) {
		case int:
			return verifOrd(a < b, a == b), true
		case float64:
			return verifIntFloat(a, b), true
		case *big.Int:
			return verifOrd(b.Sign() > 0, false), true
		case *big.Rat:
			o, ok := verifExactCmp(b, a)
			return verifFlip(o), ok
		}
	case float64:
		switch b := b.(type) {
		case int:
			return verifFlip(verifIntFloat(b, a)), true
		case float64:
			switch {
			case a != a && b != b:
				return CmpEqual, true
			case a != a:
				return CmpLess, true
			case b != b:
				return CmpMore, true
			}
			return verifOrd(a < b, a == b), true
		}
	case *big.Int:
		switch b := b.(type) {
		case int:
			return verifOrd(a.Sign() < 0, false), true
		case *big.Int:
			c := a.Cmp(b)
			return verifOrd(c < 0, c == 0), true
		}
	case *big.Rat:
		switch b := b.(type) {
		case int:
			// a = q + r/den with 0 < r/den < 1, q = floor(a)
			q := new(big.Int).Div(a.Num(), a.Denom()) // Euclidean = floor for den > 0
			return verifOrd(q.Cmp(big.NewInt(int64(b))) < 0, false), true
		}
	case bool:
		if b, isb := b.(bool); isb {
			return verifOrd(!a && b, a == b), true
		}
	case string:
		if b, isb := b.(string); isb {
			return verifOrd(a < b, a == b), true
		}
	}
	return 0, false
}

func verifOrd(less, equal bool) Ordering {
	switch {
	case equal:
		return CmpEqual
	case less:
		return CmpLess
	}
	return CmpMore
}

func verifFlip(o Ordering) Ordering {
	switch o {
	case CmpLess:
		return CmpMore
	case CmpMore:
		return CmpLess
	}
	return o
}

// verifIntFloat compares an int with a float64 exactly.
func verifIntFloat(i int, f float64) Ordering {
	switch {
	case f != f:
		return CmpMore // NaN is below every number
	case f >= 9223372036854775808.0:
		return CmpLess
	case f < -9223372036854775808.0:
		return CmpMore
	}
	fl := math.Floor(f) // exact, and in int64 range
	t := int(fl)
	switch {
	case i < t:
		return CmpLess
	case i > t:
		return CmpMore
	case fl == f:
		return CmpEqual
	}
	return CmpLess // i == floor(f) < f
}

// VerifC09Order: compare follows the documented per-type order.
func VerifC09Order(ka, kb int) {
	a, b := verifValue("a", ka, 2), verifValue("b", kb, 2)
	want, ok := verifExactCmp(a, b)
	vrt.Assume(ok)
	vrt.Assert(Cmp(a, b) == want, "compare orders by value (numbers mathematically, NaN lowest, strings by bytes, false<true)")
}

// VerifC09Lists: lists compare lexicographically by elements.
func VerifC09Lists(ka, kb int) {
	a0, a1 := verifValue("a0", ka, 1), verifValue("a1", kb, 1)
	b0, b1 := verifValue("b0", ka, 1), verifValue("b1", kb, 1)
	short := vrt.Bool("short") // b has one element only
	la := MakeList(a0, a1)
	lb := MakeList(b0, b1)
	if short {
		lb = MakeList(b0)
	}
	got := Cmp(la, lb)
	c0 := Cmp(a0, b0)
	var want Ordering
	switch {
	case c0 != CmpEqual:
		want = c0
	case short:
		want = CmpMore
	default:
		want = Cmp(a1, b1)
	}
	vrt.Assert(got == want, "lists compare lexicographically")
	vrt.Assert(vrt.Implies(Equal(la, lb), got == CmpEqual), "compare outputs 0 for eq lists")
}
