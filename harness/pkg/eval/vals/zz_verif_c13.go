package vals

import (
	"strconv"
	"unicode/utf8"

	vrt "src.elv.sh/pkg/zzvrt"
)

// ---- reference reader for index strings, written from the language reference

// verifRefInt reads [+-]?[0-9]+ ; ok=false if not an integer literal.
func verifRefInt(s string) (v int, ok bool) {
	i := 0
	neg := false
	if i < len(s) && (s[i] == '+' || s[i] == '-') {
		neg = s[i] == '-'
		i++
	}
	if i == len(s) {
		return 0, false
	}
	for ; i < len(s); i++ {
		if s[i] < '0' || s[i] > '9' {
			return 0, false
		}
		v = v*10 + int(s[i]-'0')
	}
	if neg {
		v = -v
	}
	return v, true
}

// verifRefIndex: the reference's meaning of index text s for a sequence of
// length n. valid=false means "must raise an exception".
func verifRefIndex(s string, n int) (valid, slice bool, lo, hi int) {
	sep, sepLen := -1, 0
	for i := 0; i+1 < len(s); i++ {
		if s[i] == '.' && s[i+1] == '.' {
			sep, sepLen = i, 2
			break
		}
	}
	// "..=" takes precedence when it occurs anywhere (first occurrence)
	for i := 0; i+2 < len(s); i++ {
		if s[i] == '.' && s[i+1] == '.' && s[i+2] == '=' {
			sep, sepLen = i, 3
			break
		}
	}
	if sep < 0 {
		v, ok := verifRefInt(s)
		if !ok {
			return false, false, 0, 0
		}
		if v < 0 {
			v += n
		}
		return 0 <= v && v < n, false, v, 0
	}
	lo, hi = 0, n
	if sep > 0 {
		v, ok := verifRefInt(s[:sep])
		if !ok {
			return false, true, 0, 0
		}
		if v < 0 {
			v += n
		}
		lo = v
	}
	if sep+sepLen < len(s) {
		v, ok := verifRefInt(s[sep+sepLen:])
		if !ok {
			return false, true, 0, 0
		}
		if sepLen == 3 {
			if v == -1 {
				v = n
			} else {
				if v < 0 {
					v += n
				}
				v++
			}
		} else if v < 0 {
			v += n
		}
		hi = v
	}
	return 0 <= lo && lo <= hi && hi <= n, true, lo, hi
}

// VerifC13Text: every index text of m symbolic bytes against a list of length n.
func VerifC13Text(m, n int) {
	s := vrt.Str("idx", m)
	got, err := ConvertListIndex(s, n)
	valid, slice, lo, hi := verifRefIndex(s, n)
	if !valid {
		vrt.Assert(err != nil, "index the reference rules out raises an exception")
		return
	}
	vrt.Assert(err == nil, "index the reference allows is accepted")
	if err != nil {
		return
	}
	vrt.Assert(got.Slice == slice && got.Lower == lo && (!slice || got.Upper == hi), "index resolves to the element/part the reference specifies")
}

// VerifC13Int: typed integer index with unconstrained 64-bit value and length.
func VerifC13Int() {
	n, i := vrt.Int("n"), vrt.Int("i")
	vrt.Assume(vrt.And(0 <= n, n <= 1<<40))
	got, err := ConvertListIndex(i, n)
	want := vrt.IteInt(i < 0, i+n, i)
	valid := vrt.And(0 <= want, want < n)
	if err != nil {
		vrt.Assert(vrt.Not(valid), "valid integer index accepted")
		return
	}
	vrt.Assert(valid, "invalid integer index rejected")
	vrt.Assert(!got.Slice && got.Lower == want, "integer index resolves (negative counts from the end)")
}

// VerifC13Hostile: overflowing and extreme numbers in index text never panic
// and are rejected or resolved per the reference.
func VerifC13Hostile(k, n int) {
	texts := []string{
		"..=9223372036854775807", "9223372036854775807", "-9223372036854775808", "9223372036854775808",
		"..9223372036854775807", "-9223372036854775808..", "..=-9223372036854775808", "99999999999999999999..",
		"..=9223372036854775806", "-9223372036854775809", "0..=-1", "..=-1", "-1..=-1", "..=-2",
	}
	s := texts[k]
	got, err := ConvertListIndex(s, n)
	if err == nil {
		vrt.Assert(0 <= got.Lower && got.Lower <= n && (!got.Slice || (got.Lower <= got.Upper && got.Upper <= n)), "accepted index lies within the sequence")
	}
	vrt.Reach("hostile index handled")
}

// VerifC13String: string indexing returns exactly s[i:j] iff both ends are on
// character boundaries; assoc splices exactly.
func VerifC13String(m int) {
	s := vrt.Str("s", m)
	vrt.Assume(utf8.ValidString(s))
	i, j := vrt.Choice("i", m+1), vrt.Choice("j", m+1)
	vrt.Assume(i <= j)
	onBoundary := func(k int) bool { return k == m || utf8.RuneStart(s[k]) }
	idx := strconv.Itoa(i) + ".." + strconv.Itoa(j)
	part, err := indexString(s, idx)
	if onBoundary(i) && onBoundary(j) {
		vrt.Assert(err == nil && part == s[i:j], "slice on character boundaries returns exactly that part")
		r, err2 := assocString(s, idx, "xy")
		vrt.Assert(err2 == nil && r == s[:i]+"xy"+s[j:], "assoc of a string slice splices exactly")
	} else {
		vrt.Assert(err != nil, "slice cutting a character raises an exception")
	}
	// single index: the whole character starting at i
	if i < m {
		ch, err := indexString(s, i)
		if onBoundary(i) {
			_, size := utf8.DecodeRuneInString(s[i:])
			vrt.Assert(err == nil && ch == s[i:i+size], "integer index returns the character starting there")
		} else {
			vrt.Assert(err != nil, "integer index inside a character raises an exception")
		}
	}
}

// VerifC13List: indexing / assoc on real lists of length n.
func VerifC13List(n int) {
	elems := make([]any, n)
	for k := range elems {
		elems[k] = vrt.Int("e")
	}
	l := MakeList(elems...)
	i := vrt.Int("i")
	v, err := indexList(l, i)
	want := vrt.IteInt(i < 0, i+n, i)
	if err != nil {
		vrt.Assert(vrt.Not(vrt.And(0 <= want, want < n)), "valid list index accepted")
		return
	}
	k := vrt.Concrete(want)
	vrt.Assert(0 <= k && k < n, "accepted list index in range")
	vrt.Assert(v == elems[k], "list index returns the addressed element")
	nv := vrt.Int("new")
	l2any, err := assocList(l, i, nv)
	vrt.Assert(err == nil, "assoc at a valid index succeeds")
	l2 := l2any.(List)
	vrt.Assert(l2.Len() == n, "assoc keeps the length")
	for q := 0; q < n; q++ {
		x, _ := l2.Index(q)
		o, _ := l.Index(q)
		if q == k {
			vrt.Assert(x == nv, "assoc replaces the addressed element")
		} else {
			vrt.Assert(x == elems[q], "assoc leaves other elements alone")
		}
		vrt.Assert(o == elems[q], "assoc does not change the original list")
	}
}
