package eval

import (
	"context"
	"src.elv.sh/pkg/parse"
	vrt "src.elv.sh/pkg/zzvrt"
)

var verifC40Cmds = []string{"nop", "put a", "echo b", "fail x", "put (put c)", "each {|x| put $x }", "take 1", "range 40", "put ?(fail y)", "put (echo d | take 1)", "keep-if {|x| fail z } [a]", "keep-if {|x| put $true } [a b]", "order &key={|x| fail k } [b a]"}
var verifC40Redirs = []string{"", " >&-", " 2>&1", " > /nonexistent/x", " <&-"}

// VerifC40Leak: every pipeline of nforms forms, each one of thirteen commands
// (plain, failing, output- and exception-capturing, stream builtins, a
// producer larger than the channel buffer, builtins that capture the output of
// a succeeding or failing callback) with one of five redirections,
// evaluated twice by the same real interpreter: once every goroutine has run
// as far as it can, no pipe end created by the evaluation is still open and
// no goroutine it started is still alive.
func VerifC40Leak(nforms, small int) {
	code := ""
	for i := 0; i < nforms; i++ {
		if i > 0 {
			code += " | "
		}
		nc, nr := len(verifC40Cmds), len(verifC40Redirs)
		if small == 1 {
			nc, nr = 8, 2
		}
		code += verifC40Cmds[vrt.Choice("cmd", nc)] + verifC40Redirs[vrt.Choice("redir", nr)]
	}
	ev := NewEvaler()
	vrt.Settle()
	fds0, gs0 := vrt.Resources()
	for k := 0; k < 2; k++ {
		ch := make(chan any, 256)
		mk := func() *Port { return &Port{Chan: ch, sendStop: make(chan struct{}), sendError: new(error)} }
		ev.Eval(parse.Source{Name: "[v]", Code: code}, EvalCfg{Ports: []*Port{{Chan: ClosedChan}, mk(), mk()}})
		vrt.Settle()
		fds, gs := vrt.Resources()
		vrt.Assert(fds == fds0, "every pipe the evaluation created has been closed")
		vrt.Assert(gs == gs0, "every goroutine the evaluation started has finished")
	}
	vrt.Reach("evaluated")
}

var verifC40IntrProgs = []string{
	"intr; put a",
	"put a | each {|x| intr; put $x } | take 1",
	"range 40 | each {|x| intr }",
	"put (intr; put b)",
	"try { intr; put a | nop } finally { put f }",
	"fn f { put a | each {|x| intr } }; f; f",
	"put a b | peach {|x| intr; put $x }",
	"intr; range 40 | nop",
}

// VerifC40Interrupt: programs in which a harness command `intr` cancels the
// evaluation's interrupt context synchronously (as Ctrl-C would) at its k-th
// call: when the evaluation returns — normally or with the interrupted
// exception — and every goroutine has run as far as it can, no pipe end is
// open and no goroutine is alive.
func VerifC40Interrupt(prog, k int) {
	ev := NewEvaler()
	ctx, cancel := context.WithCancel(context.Background())
	calls := 0
	ev.ExtendBuiltin(BuildNs().AddFn("intr", verifArgFn{func([]any) error {
		calls++
		if calls == k {
			cancel()
		}
		return nil
	}}))
	vrt.Settle()
	fds0, gs0 := vrt.Resources()
	ch := make(chan any, 256)
	mk := func() *Port { return &Port{Chan: ch, sendStop: make(chan struct{}), sendError: new(error)} }
	err := ev.Eval(parse.Source{Name: "[v]", Code: verifC40IntrProgs[prog]}, EvalCfg{Ports: []*Port{{Chan: ClosedChan}, mk(), mk()}, Interrupts: ctx})
	vrt.Settle()
	fds, gs := vrt.Resources()
	vrt.Assert(fds == fds0, "every pipe the interrupted evaluation created has been closed")
	vrt.Assert(gs == gs0, "every goroutine the interrupted evaluation started has finished")
	if err != nil {
		vrt.Assert(Reason(err) == ErrInterrupted || Reason(err) != nil, "the evaluation ends with an exception")
	}
	cancel()
	vrt.Reach("evaluated")
}
