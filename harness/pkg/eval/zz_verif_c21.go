package eval

import (
	"errors"

	"src.elv.sh/pkg/diag"
	"src.elv.sh/pkg/parse"
	vrt "src.elv.sh/pkg/zzvrt"
)

var (
	errVerifBody    = errors.New("body failed")
	errVerifRestore = errors.New("restore failed")
	errVerifDefer   = errors.New("deferred callback failed")
)

// verifVar is a variable that records every Set and can be made to fail when
// it is set back to a given value.
type verifVar struct {
	name   string
	val    any
	log    *[]string
	failOn any // Set(failOn) fails (used to make the restore fail)
}

func (v *verifVar) Get() any { return v.val }
func (v *verifVar) Set(x any) error {
	*v.log = append(*v.log, "set "+v.name)
	if v.failOn != nil && x == v.failOn {
		return errVerifRestore
	}
	v.val = x
	return nil
}

// verifExit builds the exception for a body exit kind: 0 normal, 1 failure,
// 2 break, 3 continue, 4 return.
func verifExit(kind int) Exception {
	switch kind {
	case 1:
		return &exception{errVerifBody, nil}
	case 2:
		return &exception{Break, nil}
	case 3:
		return &exception{Continue, nil}
	case 4:
		return &exception{Return, nil}
	}
	return nil
}

type verifFn struct{ f func(fm *Frame) error }

func (c verifFn) Call(fm *Frame, args []any, opts map[string]any) error { return c.f(fm) }

func verifLocalFrame(vs ...*verifVar) *Frame {
	fm := verifCtxFrame()
	fm.src = parse.Source{Name: "[v]", Code: "0123456789"}
	ns := &Ns{}
	for _, v := range vs {
		ns.slots = append(ns.slots, v)
		ns.infos = append(ns.infos, staticVarInfo{v.name, false, false})
	}
	fm.local = ns
	return fm
}

func verifLV(i int) lvalue {
	return lvalue{Ranging: diag.Ranging{From: i, To: i + 1}, ref: &varRef{scope: localScope, index: i}}
}

// VerifC21With: with [a = 1] [b = 2] { body } — the body exits in a symbolic
// way, the restore of a or b may fail (symbolic).
func VerifC21With() {
	var log []string
	a := &verifVar{name: "a", val: "a0", log: &log}
	b := &verifVar{name: "b", val: "b0", log: &log}
	switch vrt.Choice("restore failure", 3) {
	case 1:
		a.failOn = "a0"
	case 2:
		b.failOn = "b0"
	}
	fm := verifLocalFrame(a, b)
	exit := vrt.Choice("exit", 5)
	bodySaw := ""
	body := verifFn{func(*Frame) error {
		bodySaw = a.val.(string) + b.val.(string)
		log = append(log, "body")
		if e := verifExit(exit); e != nil {
			return e
		}
		return nil
	}}
	op := &withOp{
		assigns: []withAssign{
			{lhs: lvaluesGroup{[]lvalue{verifLV(0)}, -1}, rhs: verifValOp{vals: []any{"a1"}}},
			{lhs: lvaluesGroup{[]lvalue{verifLV(1)}, -1}, rhs: verifValOp{vals: []any{"b1"}}},
		},
		bodyOp: verifValOp{vals: []any{body}},
	}
	exc := op.exec(fm)
	vrt.Assert(bodySaw == "a1b1", "the body sees the temporary values")
	want := []string{"set a", "set b", "body", "set b", "set a"}
	ok := len(log) == len(want)
	for i := range want {
		if i < len(log) && log[i] != want[i] {
			ok = false
		}
	}
	vrt.Assert(ok, "with restores every variable once, in reverse order, however the body exits")
	if a.failOn == nil {
		vrt.Assert(a.val == "a0", "a is restored to its previous value")
	}
	if b.failOn == nil {
		vrt.Assert(b.val == "b0", "b is restored to its previous value")
	}
	restoreFails := a.failOn != nil || b.failOn != nil
	switch {
	case exit != 0:
		vrt.Assert(exc != nil && exc.Reason() == verifExit(exit).Reason(), "the body's own exception is the one reported")
	case restoreFails:
		vrt.Assert(exc != nil && errors.Is(exc.Reason(), errVerifRestore), "a restore failure is reported when the body succeeded")
	default:
		vrt.Assert(exc == nil, "no failure: with succeeds")
	}
}

type verifClosureBody struct {
	steps []func(fm *Frame) Exception
}

func (b verifClosureBody) exec(fm *Frame) Exception {
	for _, s := range b.steps {
		if exc := s(fm); exc != nil {
			return exc
		}
	}
	return nil
}

// VerifC21Closure: a function body doing `tmp a = a1; defer d1; defer d2;
// <exit>`; deferred callbacks may fail (symbolic).
func VerifC21Closure() {
	var log []string
	a := &verifVar{name: "a", val: "a0", log: &log}
	exit := vrt.Choice("exit", 5)
	d1fails, d2fails := vrt.Bool("d1 fails"), vrt.Bool("d2 fails")
	// the deferred callbacks are real closures, as `defer { ... }` creates them:
	// calling one re-points the frame's defer list, which runDefers must survive
	mkDefer := func(name string, fails bool) func(fm *Frame) Exception {
		return func(fm *Frame) Exception {
			cb := &Closure{RestArg: -1, Src: parse.Source{Name: "[defer]", Code: "0123456789"}, captured: &Ns{},
				op: verifClosureBody{[]func(fm *Frame) Exception{func(*Frame) Exception {
					log = append(log, name)
					if fails {
						return &exception{errVerifDefer, nil}
					}
					return nil
				}}}}
			err := deferFn(fm, cb)
			if err != nil {
				return &exception{err, nil}
			}
			return nil
		}
	}
	tmp := &assignOp{lhs: lvaluesGroup{[]lvalue{verifLV(0)}, -1}, rhs: verifValOp{vals: []any{"a1"}}, temp: true}
	seenInBody := ""
	cl := &Closure{RestArg: -1, Src: parse.Source{Name: "[fn]", Code: "0123456789"},
		captured: &Ns{slots: nil},
		op: verifClosureBody{[]func(fm *Frame) Exception{
			func(fm *Frame) Exception {
				// the closure's local scope is fresh: put the variable there
				fm.local.slots = append(fm.local.slots, a)
				fm.local.infos = append(fm.local.infos, staticVarInfo{"a", false, false})
				return tmp.exec(fm)
			},
			mkDefer("d1", d1fails),
			mkDefer("d2", d2fails),
			func(fm *Frame) Exception {
				seenInBody = a.val.(string)
				log = append(log, "body")
				return verifExit(exit)
			},
		}}}
	err := cl.Call(verifCtxFrame(), NoArgs, NoOpts)
	vrt.Assert(seenInBody == "a1", "the body sees the temporary value")
	want := []string{"set a", "body", "d2", "d1", "set a"}
	ok := len(log) == len(want)
	for i := range want {
		if i < len(log) && log[i] != want[i] {
			ok = false
		}
	}
	vrt.Assert(ok, "deferred callbacks run once each in reverse registration order, then tmp restores, however the body exits")
	vrt.Assert(a.val == "a0", "tmp restores the previous value when the function finishes")
	switch {
	case exit != 0:
		vrt.Assert(err != nil && Reason(err) == verifExit(exit).Reason(), "the body's own exception is the one reported")
	case d1fails || d2fails:
		vrt.Assert(err != nil && Reason(err) == errVerifDefer, "a deferred callback's failure is reported when the body succeeded")
	default:
		vrt.Assert(err == nil, "no failure: the call succeeds")
	}
}
