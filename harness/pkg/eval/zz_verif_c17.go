package eval

import (
	"src.elv.sh/pkg/parse"
	vrt "src.elv.sh/pkg/zzvrt"
)

var verifC17Redirs = []string{"", " >&-", " >&2", " 2>&1", " > /nonexistent/x", " <&-", " >&0", " 2>&-", " < /nonexistent/y"}
var verifC17Cmds = []string{"nop", "put a", "echo b"}

// VerifC17Redir: every pipeline of nforms forms (nop / put / echo) where each
// form carries one of nine redirections (closing, duplicating, or opening a
// file that does not exist), evaluated `times` times by the same real
// evaluator with the real builtin namespace: evaluation ends (normally or with
// an exception), never with a Go panic or a deadlock.
func VerifC17Redir(nforms, times int) {
	code := ""
	for i := 0; i < nforms; i++ {
		if i > 0 {
			code += " | "
		}
		code += verifC17Cmds[vrt.Choice("cmd", len(verifC17Cmds))] + verifC17Redirs[vrt.Choice("redir", len(verifC17Redirs))]
	}
	ev := NewEvaler()
	for k := 0; k < times; k++ {
		ch := make(chan any, 64)
		mk := func() *Port { return &Port{Chan: ch, sendStop: make(chan struct{}), sendError: new(error)} }
		err := ev.Eval(parse.Source{Name: "[v]", Code: code}, EvalCfg{Ports: []*Port{{Chan: ClosedChan}, mk(), mk()}})
		if err != nil {
			vrt.Assert(Reason(err) != nil || true, "an error is an Elvish exception")
		}
	}
	vrt.Reach("evaluation ended")
}

// adversarial argument pool, as Elvish source
var verifC17Pool = []string{
	"''", "a", "-1", "0", "1e400", "NaN", "\"\\xff\"", "9223372036854775808", "-9223372036854775808",
	"[]", "[a b]", "[&]", "[&k=v]", "$nil", "$true", "(num 0.5)", "{ }", "{|x| put $x }", "1/3", "-0.0", "(num -Inf)", "100000000000000000000",
}

// builtins that need the operating system (files, processes, the clock, the
// terminal) or never return; they are outside this harness
var verifC17Skip = map[string]bool{
	"exit": true, "exec": true, "external": true, "has-external": true, "search-external": true, "cd": true,
	"sleep": true, "time": true, "src": true, "-gc": true, "-stack": true, "-log": true, "-ifaddrs": true,
	"benchmark": true, "tilde-abbr": true, "use-mod": true,
	"from-json": true,
	"get-env":   true, "set-env": true, "unset-env": true, "has-env": true, "resolve": true, "deprecate": true, "-time": true,
	"rand": true, "randint": true, "-randseed": true,
	// unbounded output by design (range 1e20, repeat 1e20 x): the harness has no reader
	"range": true, "repeat": true,
	// encoding/json needs the real reflect package
	"to-json": true,
	// fg needs process groups; `/` without arguments changes directory
	"fg": true, "/": true,
}

func verifC17Names() []string {
	var names []string
	ns := builtinNs.Ns()
	for _, info := range ns.infos {
		if len(info.name) > 1 && info.name[len(info.name)-1] == '~' && !info.deleted {
			n := info.name[:len(info.name)-1]
			if !verifC17Skip[n] {
				names = append(names, n)
			}
		}
	}
	// deterministic order
	for i := 1; i < len(names); i++ {
		for j := i; j > 0 && names[j] < names[j-1]; j-- {
			names[j], names[j-1] = names[j-1], names[j]
		}
	}
	return names
}

// VerifC17Builtin: every builtin function (from index lo, count many, in
// name order) called with nargs arguments, each any value of the adversarial
// pool: evaluation ends, normally or with an exception.
func VerifC17Builtin(lo, count, nargs int) {
	names := verifC17Names()
	if lo >= len(names) {
		vrt.Reach("evaluation ended")
		return
	}
	if lo+count > len(names) {
		count = len(names) - lo
	}
	code := names[lo+vrt.Choice("builtin", count)]
	for i := 0; i < nargs; i++ {
		code += " " + verifC17Pool[vrt.Choice("arg", len(verifC17Pool))]
	}
	ev := NewEvaler()
	ch := make(chan any, 256)
	mk := func() *Port { return &Port{Chan: ch, sendStop: make(chan struct{}), sendError: new(error)} }
	ev.Eval(parse.Source{Name: "[v]", Code: code}, EvalCfg{Ports: []*Port{{Chan: ClosedChan}, mk(), mk()}})
	vrt.Reach("evaluation ended")
}
