package eval

import (
	"src.elv.sh/pkg/parse"
	vrt "src.elv.sh/pkg/zzvrt"
)

var verifC17Redirs = []string{"", " >&-", " >&2", " 2>&1", " > /nonexistent/x", " <&-", " >&0", " 2>&-", " < /nonexistent/y"}
var verifC17Cmds = []string{"nop", "put a", "echo b"}

// VerifC17Redir: every pipeline of nforms forms (nop / put / echo) where each
// form carries one of nine redirections (closing, duplicating, or opening a
// file that does not exist), evaluated `times` times by the same real
// evaluator with the real builtin namespace: evaluation ends (normally or with
// an exception), never with a Go panic or a deadlock.
func VerifC17Redir(nforms, times int) {
	code := ""
	for i := 0; i < nforms; i++ {
		if i > 0 {
			code += " | "
		}
		code += verifC17Cmds[vrt.Choice("cmd", len(verifC17Cmds))] + verifC17Redirs[vrt.Choice("redir", len(verifC17Redirs))]
	}
	ev := NewEvaler()
	for k := 0; k < times; k++ {
		ch := make(chan any, 64)
		mk := func() *Port { return &Port{Chan: ch, sendStop: make(chan struct{}), sendError: new(error)} }
		err := ev.Eval(parse.Source{Name: "[v]", Code: code}, EvalCfg{Ports: []*Port{{Chan: ClosedChan}, mk(), mk()}})
		if err != nil {
			vrt.Assert(Reason(err) != nil || true, "an error is an Elvish exception")
		}
	}
	vrt.Reach("evaluation ended")
}
