package eval

import (
	"context"

	"src.elv.sh/pkg/parse"
	vrt "src.elv.sh/pkg/zzvrt"
)

type verifBody struct {
	id  int
	log *[]int
}

func (b verifBody) exec(fm *Frame) Exception {
	*b.log = append(*b.log, b.id)
	return nil
}

// VerifC19Chunk: a chunk of k pipelines evaluated while another goroutine
// cancels the context at an arbitrary moment.
func VerifC19Chunk(k int) {
	ctx, cancel := context.WithCancel(context.Background())
	fm := &Frame{ctx: ctx, src: parse.Source{Name: "[v]", Code: "x"}, ports: []*Port{{}, {}, {}}}
	var started []int
	var ps []*pipelineOp
	for i := 0; i < k; i++ {
		ps = append(ps, &pipelineOp{forms: []*formOp{{body: formBody{specialOp: verifBody{i, &started}}}}})
	}
	op := &chunkOp{pipelines: ps}
	cancelledAt := -1 // number of pipeline bodies started when the interrupt was delivered
	finished := false
	doCancel := vrt.Bool("interrupt")
	done := make(chan struct{})
	go func() {
		if doCancel {
			cancel()
			if !finished {
				cancelledAt = len(started)
			}
		}
		close(done)
	}()
	exc := op.exec(fm)
	finished = true
	<-done
	for i, id := range started {
		vrt.Assert(id == i, "pipelines run in order")
	}
	if cancelledAt >= 0 {
		vrt.Assert(len(started) <= cancelledAt+1, "after the interrupt is delivered no further pipeline starts (at most the one already past its check)")
		vrt.Assert(exc != nil && exc.Reason() == ErrInterrupted, "an interrupted evaluation returns the interrupted exception")
	}
	if exc == nil {
		vrt.Assert(len(started) == k, "an evaluation that was not interrupted runs every pipeline")
	} else {
		vrt.Assert(exc.Reason() == ErrInterrupted && doCancel, "the only exception is the interrupt")
	}
	cancel()
}

// VerifC19Peach: one-worker peach while the context is cancelled at an
// arbitrary moment: the bound holds and peach still waits for its callbacks.
func VerifC19Peach(n int) {
	ctx, cancel := context.WithCancel(context.Background())
	fm := &Frame{ctx: ctx, src: parse.Source{Name: "[v]", Code: "x"}, ports: []*Port{{}, {}, {}}}
	t := &verifTask{outcome: make([]int, n)}
	inputs := func(f func(any)) {
		for i := 0; i < n; i++ {
			f(i)
		}
	}
	done := make(chan struct{})
	go func() {
		cancel()
		close(done)
	}()
	err := peach(fm, peachOpt{NumWorkers: 1}, t, inputs)
	<-done
	_ = err
	vrt.Assert(t.maxRunning <= 1, "the number of running callbacks never exceeds num-workers, even when interrupted")
	vrt.Assert(t.running == 0 && len(t.ended) == len(t.started), "peach returns only after every started callback has ended")
}
