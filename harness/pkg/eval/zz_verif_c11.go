package eval

import (
	"math/big"

	"src.elv.sh/pkg/eval/vals"
	vrt "src.elv.sh/pkg/zzvrt"
)

// verifCanonical: v is the canonical Elvish number with exact value want.
func verifCanonical(v any, want *big.Int, what string) {
	switch x := v.(type) {
	case int:
		vrt.Assert(want.IsInt64() && want.Int64() == int64(x), what+": exact value")
	case *big.Int:
		vrt.Assert(x.Cmp(want) == 0, what+": exact value")
		vrt.Assert(!x.IsInt64(), what+": big integers only beyond the machine range (canonical form)")
	default:
		vrt.Fail(what + ": result of exact integers is an exact integer")
	}
}

func verifExactInt(tag string, kind int) (vals.Num, *big.Int) {
	if kind == 0 {
		i := vrt.Int(tag)
		return i, big.NewInt(int64(i))
	}
	w0, w1 := vrt.Uint64(tag+".w0"), vrt.Uint64(tag+".w1")
	z := new(big.Int).SetBits([]big.Word{big.Word(w0), big.Word(w1)})
	if vrt.Bool(tag + ".neg") {
		z.Neg(z)
	}
	vrt.Assume(!z.IsInt64())
	return z, new(big.Int).Set(z)
}

// VerifC11AddSubMul: k exact integers of the given kinds (0 = int, 1 = big),
// op 0 add, 1 sub, 2 mul.
func VerifC11AddSubMul(op, k0, k1, k2 int) {
	kinds := []int{k0, k1, k2}
	var args []vals.Num
	var exact []*big.Int
	for i, k := range kinds {
		if k < 0 {
			continue
		}
		a, e := verifExactInt([]string{"a", "b", "c"}[i], k)
		args = append(args, a)
		exact = append(exact, e)
	}
	var got any
	want := new(big.Int)
	switch op {
	case 0:
		got = add(args...)
		for _, e := range exact {
			want.Add(want, e)
		}
	case 1:
		r, err := sub(args...)
		vrt.Assert(err == nil, "subtraction of exact integers succeeds")
		got = r
		if len(exact) == 1 {
			want.Neg(exact[0])
		} else {
			want.Set(exact[0])
			for _, e := range exact[1:] {
				want.Sub(want, e)
			}
		}
	case 2:
		got = mul(args...)
		want.SetInt64(1)
		for _, e := range exact {
			want.Mul(want, e)
		}
	}
	verifCanonical(vals.FromGo(got), want, "result")
}

func verifInt16(tag string) int {
	return int(int16(uint16(vrt.Byte(tag+".lo")) | uint16(vrt.Byte(tag+".hi"))<<8))
}

func verifCheckRem(a, b int) {
	r, err := rem(a, b)
	if b == 0 {
		vrt.Assert(err != nil, "remainder by exact zero raises an exception")
		return
	}
	vrt.Assert(err == nil, "remainder by a non-zero integer succeeds")
	ri, ok := vals.FromGo(r).(int)
	vrt.Assert(ok, "remainder of machine integers is a machine integer")
	// truncated division: sign of r = sign of a, |r| < |b|, a - r divisible by b
	vrt.Assert(vrt.Or(ri == 0, (ri < 0) == (a < 0)), "remainder has the sign of the dividend")
	want := new(big.Int).Rem(big.NewInt(int64(a)), big.NewInt(int64(b)))
	vrt.Assert(want.IsInt64() && want.Int64() == int64(ri), "remainder is exact")
}

// VerifC11Rem: remainder of exact integers: all pairs of 16-bit integers
// (symbolic) — a symbolic 64-bit divider circuit is beyond the solvers.
func VerifC11Rem() {
	verifCheckRem(verifInt16("a"), verifInt16("b"))
}

// VerifC11RemExtreme: the overflow corners, concretely.
func VerifC11RemExtreme(k int) {
	const maxInt = int(^uint(0) >> 1)
	const minInt = -maxInt - 1
	pairs := [][2]int{{minInt, -1}, {minInt, 1}, {maxInt, -1}, {minInt, minInt}, {minInt, maxInt}, {maxInt, minInt}, {5, -3}, {-5, 3}, {-5, -3}, {0, -1}, {minInt, 0}, {7, 0}}
	verifCheckRem(pairs[k][0], pairs[k][1])
}

// VerifC11Div: division of small exact integers (|x| <= 8) is exact and
// canonical; division by exact zero raises, including the reciprocal form.
func VerifC11Div(k int) {
	small := func(tag string) int {
		v := vrt.Int(tag)
		vrt.Assume(vrt.And(-8 <= v, v <= 8))
		return vrt.Concrete(v)
	}
	var args []vals.Num
	var xs []int
	for i := 0; i < k; i++ {
		x := small([]string{"a", "b", "c"}[i])
		xs = append(xs, x)
		args = append(args, x)
	}
	r, err := div(args...)
	zeroDiv := false
	if k == 1 {
		zeroDiv = xs[0] == 0
	} else {
		for _, x := range xs[1:] {
			if x == 0 {
				zeroDiv = true
			}
		}
	}
	if zeroDiv {
		vrt.Assert(err != nil, "division by exact zero raises an exception")
		return
	}
	vrt.Assert(err == nil, "division by non-zero exact numbers succeeds")
	want := new(big.Rat)
	if k == 1 {
		want.SetFrac64(1, int64(xs[0]))
	} else {
		want.SetInt64(int64(xs[0]))
		for _, x := range xs[1:] {
			want.Quo(want, new(big.Rat).SetInt64(int64(x)))
		}
	}
	switch x := vals.FromGo(r).(type) {
	case int:
		vrt.Assert(want.IsInt() && want.Num().Int64() == int64(x), "quotient is exact")
	case *big.Rat:
		vrt.Assert(x.Cmp(want) == 0, "quotient is exact")
		vrt.Assert(!x.IsInt(), "rationals only when not integral (canonical form)")
	default:
		vrt.Fail("quotient of exact numbers is exact")
	}
}
