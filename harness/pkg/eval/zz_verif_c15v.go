package eval

import (
	"strconv"

	"src.elv.sh/pkg/eval/vals"
	"src.elv.sh/pkg/parse"
	vrt "src.elv.sh/pkg/zzvrt"
)

// Value-level core language: expression trees over literals, variables,
// braced lists, compounding, output capture, list literals, indexing,
// and/or/coalesce, arithmetic/comparison builtins and value-stream pipelines
// are generated (choice points enumerate every tree within the budget),
// rendered to source, run by the real evaluator with the real builtin
// namespace, and compared with a reference evaluator written from the language
// reference (website/ref/language.md) and the builtin docs.

const (
	xLitA = iota
	xLit1
	xLit2
	xVarS   // $s = S
	xExplL  // $@l = p q
	xVarL   // $l = [p q]
	xExplE  // $@e = nothing
	xTrue   // $t
	xFalse  // $f
	xNil    // $n
	xLeaves // number of leaf kinds

	xBraced = iota - 1
	xCompound
	xCapture
	xList
	xIndex
	xAnd
	xOr
	xCoalesce
	xPlus
	xNumEq
	xEq
	xTake
	xDrop
	xEach
	xCount
	xEnd
)

var xLeafSrc = []string{"a", "1", "2", "$s", "$@l", "$l", "$@e", "$t", "$f", "$n"}
var xIndexSrc = []string{"0", "1", "-1", "3", "0..1"}

type xNode struct {
	kind int
	a, b *xNode
	idx  int
}

type xGen struct {
	budget  int
	small   bool // restricted leaf alphabet
	unglued bool // some compound's second part cannot be glued textually
}

func (g *xGen) leaf() *xNode {
	if g.small {
		return &xNode{kind: []int{xLitA, xLit1, xExplL, xVarL, xExplE}[vrt.Choice("leaf", 5)]}
	}
	return &xNode{kind: vrt.Choice("leaf", xLeaves)}
}

func (g *xGen) expr() *xNode {
	if g.budget == 0 {
		return g.leaf()
	}
	k := vrt.Choice("expr", 1+xEnd-xBraced)
	if k == 0 {
		return g.leaf()
	}
	g.budget--
	n := &xNode{kind: xBraced + k - 1}
	n.a = g.expr()
	n.b = g.expr()
	if n.kind == xCompound && !xJoinable(n.b) {
		g.unglued = true
	}
	if n.kind == xIndex {
		n.idx = vrt.Choice("index", len(xIndexSrc))
	}
	return n
}

// xJoinable reports whether the source of n can be glued after another
// expression without changing how either is parsed.
func xJoinable(n *xNode) bool {
	switch n.kind {
	case xLitA, xLit1, xLit2, xList, xIndex:
		return false
	case xCompound:
		return xJoinable(n.a)
	}
	return true
}

func xRender(n *xNode) string {
	if n.kind < xLeaves {
		return xLeafSrc[n.kind]
	}
	a := xRender(n.a)
	b := ""
	if n.b != nil {
		b = xRender(n.b)
	}
	switch n.kind {
	case xBraced:
		return "{" + a + "," + b + "}"
	case xCompound:
		return a + b
	case xCapture:
		return "(put " + a + " " + b + ")"
	case xList:
		return "[" + a + " " + b + "]"
	case xIndex:
		return "{" + a + "," + b + "}[" + xIndexSrc[n.idx] + "]"
	case xAnd:
		return "(and " + a + " " + b + ")"
	case xOr:
		return "(or " + a + " " + b + ")"
	case xCoalesce:
		return "(coalesce " + a + " " + b + ")"
	case xPlus:
		return "(+ " + a + " " + b + ")"
	case xNumEq:
		return "(== " + a + " " + b + ")"
	case xEq:
		return "(eq " + a + " " + b + ")"
	case xTake:
		return "(put " + a + " " + b + " | take 1)"
	case xDrop:
		return "(put " + a + " " + b + " | drop 1)"
	case xEach:
		return "(put " + a + " " + b + " | each {|v| put [$v] })"
	case xCount:
		return "(put " + a + " " + b + " | count)"
	}
	return "?"
}

// reference values: string, int (exact number), bool, nil, vals.List
type xRef struct{ err bool }

func xTruthy(v any) bool {
	switch v := v.(type) {
	case nil:
		return false
	case bool:
		return v
	}
	return true
}

func xIsNum(v any) (int, bool) {
	switch v := v.(type) {
	case int:
		return v, true
	case string:
		if v == "" {
			return 0, false
		}
		n := 0
		for i := 0; i < len(v); i++ {
			if v[i] < '0' || v[i] > '9' {
				return 0, false
			}
			n = n*10 + int(v[i]-'0')
		}
		return n, true
	}
	return 0, false
}

func xConcat(a, b any) (any, bool) {
	as, aok := xToStr(a)
	bs, bok := xToStr(b)
	if !aok || !bok {
		return nil, false
	}
	return as + bs, true
}

func xToStr(v any) (string, bool) {
	switch v := v.(type) {
	case string:
		return v, true
	case int:
		return strconv.Itoa(v), true
	}
	return "", false
}

func xIndexOne(v any, idx string) (any, bool) {
	n := -1
	var items []any
	str, isStr := v.(string)
	if isStr {
		n = len(str)
	} else if l, ok := v.(vals.List); ok {
		n = l.Len()
		for it := l.Iterator(); it.HasElem(); it.Next() {
			items = append(items, it.Elem())
		}
	} else {
		return nil, false
	}
	sub := func(i, j int) any {
		if isStr {
			return str[i:j]
		}
		return vals.MakeList(items[i:j]...)
	}
	switch idx {
	case "0..1":
		if n < 1 {
			return nil, false
		}
		return sub(0, 1), true
	}
	i := map[string]int{"0": 0, "1": 1, "-1": -1, "3": 3}[idx]
	if i < 0 {
		i += n
	}
	if i < 0 || i >= n {
		return nil, false
	}
	if isStr {
		return str[i : i+1], true
	}
	return items[i], true
}

// eval returns the values of n; r.err is set when evaluation raises.
func (r *xRef) eval(n *xNode) []any {
	if r.err {
		return nil
	}
	switch n.kind {
	case xLitA:
		return []any{"a"}
	case xLit1:
		return []any{"1"}
	case xLit2:
		return []any{"2"}
	case xVarS:
		return []any{"S"}
	case xExplL:
		return []any{"p", "q"}
	case xVarL:
		return []any{vals.MakeList("p", "q")}
	case xExplE:
		return nil
	case xTrue:
		return []any{true}
	case xFalse:
		return []any{false}
	case xNil:
		return []any{nil}
	}
	// short-circuit forms evaluate their operands lazily
	switch n.kind {
	case xAnd, xOr, xCoalesce:
		var last any
		switch n.kind {
		case xAnd:
			last = true
		case xOr:
			last = false
		}
		for _, op := range []*xNode{n.a, n.b} {
			for _, v := range r.eval(op) {
				last = v
				if (n.kind == xAnd && !xTruthy(v)) || (n.kind == xOr && xTruthy(v)) || (n.kind == xCoalesce && v != nil) {
					return []any{v}
				}
			}
			if r.err {
				return nil
			}
		}
		return []any{last}
	}
	if n.kind == xCompound {
		// a compound is flat in the source (a$l$@e has three parts): its parts
		// are evaluated in order and combined left to right
		var parts []*xNode
		var flatten func(m *xNode)
		flatten = func(m *xNode) {
			if m.kind == xCompound {
				flatten(m.a)
				flatten(m.b)
			} else {
				parts = append(parts, m)
			}
		}
		flatten(n)
		var vs [][]any
		for _, p := range parts {
			v := r.eval(p)
			if r.err {
				return nil
			}
			vs = append(vs, v)
		}
		acc := vs[0]
		for _, next := range vs[1:] {
			var out []any
			for _, x := range acc {
				for _, y := range next {
					c, ok := xConcat(x, y)
					if !ok {
						r.err = true
						return nil
					}
					out = append(out, c)
				}
			}
			acc = out
		}
		return acc
	}
	av := r.eval(n.a)
	if r.err {
		return nil
	}
	bv := r.eval(n.b)
	if r.err {
		return nil
	}
	both := append(append([]any{}, av...), bv...)
	switch n.kind {
	case xBraced, xCapture:
		return both
	case xCompound:
		// handled before the operands are evaluated (see below)
		return nil
	case xList:
		return []any{vals.MakeList(both...)}
	case xIndex:
		var out []any
		for _, x := range both {
			v, ok := xIndexOne(x, xIndexSrc[n.idx])
			if !ok {
				r.err = true
				return nil
			}
			out = append(out, v)
		}
		return out
	case xPlus:
		sum := 0
		for _, x := range both {
			k, ok := xIsNum(x)
			if !ok {
				r.err = true
				return nil
			}
			sum += k
		}
		return []any{sum}
	case xNumEq:
		res := true
		for i, x := range both {
			k, ok := xIsNum(x)
			if !ok {
				r.err = true
				return nil
			}
			if i > 0 {
				p, _ := xIsNum(both[i-1])
				if p != k {
					res = false
				}
			}
		}
		return []any{res}
	case xEq:
		res := true
		for i := 1; i < len(both); i++ {
			if !vals.Equal(both[i-1], both[i]) {
				res = false
			}
		}
		return []any{res}
	case xTake:
		if len(both) > 1 {
			return both[:1]
		}
		return both
	case xDrop:
		if len(both) > 1 {
			return both[1:]
		}
		return nil
	case xEach:
		var out []any
		for _, x := range both {
			out = append(out, vals.MakeList(x))
		}
		return out
	case xCount:
		return []any{len(both)}
	}
	return nil
}

// VerifC15Values: every expression tree with at most `budget` operators over
// the full (small=0) or the restricted (small=1) leaf alphabet.
func VerifC15Values(budget, small int) {
	g := &xGen{budget: budget, small: small == 1}
	root := g.expr()
	if g.unglued {
		// the source of a compound would parse as something else (a$s vs $sa)
		return
	}
	code := "var s = S; var l = [p q]; var e = []; var t = $true; var f = $false; var n = $nil\nput " + xRender(root)
	ev := NewEvaler()
	ch := make(chan any, 64)
	mk := func() *Port { return &Port{Chan: ch, sendStop: make(chan struct{}), sendError: new(error)} }
	err := ev.Eval(parse.Source{Name: "[v]", Code: code}, EvalCfg{Ports: []*Port{{Chan: ClosedChan}, mk(), mk()}})
	vrt.Reach("program ran")

	r := &xRef{}
	want := r.eval(root)
	if r.err {
		vrt.Assert(err != nil, "an expression the reference evaluator rejects raises an exception")
		if err != nil {
			rs := Reason(err)
			vrt.Assert(rs != Break && rs != Continue && rs != Return, "a value error is not a flow-control exception")
		}
		return
	}
	vrt.Assert(err == nil, "an expression the reference evaluator accepts raises no exception")
	vrt.Assert(len(ch) == len(want), "the number of values output equals the reference's")
	for _, w := range want {
		got := <-ch
		vrt.Assert(vals.Equal(got, w), "each value output equals the reference's")
	}
}
