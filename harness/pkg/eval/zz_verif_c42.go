package eval

import (
	"os"

	"src.elv.sh/pkg/diag"
	"src.elv.sh/pkg/parse"
	vrt "src.elv.sh/pkg/zzvrt"
)

// verifValOp is a valuesOp yielding fixed values.
type verifValOp struct {
	diag.Ranging
	vals []any
}

func (op verifValOp) exec(*Frame) ([]any, Exception) { return op.vals, nil }

func verifFrame(nports int) *Frame {
	fm := &Frame{src: parse.Source{Name: "[v]", Code: "x"}}
	for i := 0; i < nports; i++ {
		fm.ports = append(fm.ports, &Port{})
	}
	return fm
}

// verifFd: an fd operand: symbolic int, or one of the names.
func verifFd(tag string) (any, int) {
	switch vrt.Choice(tag+".kind", 5) {
	case 0:
		n := vrt.Int(tag)
		return n, n
	case 1:
		return "stdin", 0
	case 2:
		return "stdout", 1
	case 3:
		return "stderr", 2
	}
	return "-", -1
}

// VerifC42FdRedir: `dst>&src` on a frame with nports open ports. region 0:
// descriptors within [-1, 7]; region 1: destination negative; region 2: source
// outside the table; region 3: destination beyond 2^40.
func VerifC42FdRedir(nports, region int) {
	fm := verifFrame(nports)
	before := append([]*Port{}, fm.ports...)
	dstV, dst := verifFd("dst")
	srcV, src := verifFd("src")
	switch region {
	case 0:
		vrt.Assume(vrt.And(vrt.And(-1 <= dst, dst < 8), vrt.And(-1 <= src, src < 8)))
	case 1:
		vrt.Assume(dst < 0)
	case 2:
		vrt.Assume(vrt.And(vrt.And(0 <= dst, dst < 8), vrt.Or(src < -1, src >= nports)))
	case 3:
		vrt.Assume(vrt.And(dst > 1<<40, vrt.And(0 <= src, src < nports)))
	}
	op := &redirOp{dstOp: verifValOp{vals: []any{dstV}}, srcOp: verifValOp{vals: []any{srcV}}, srcIsFd: true, mode: parse.Write}
	var fops []formOwnedPort
	exc := op.exec(fm, &fops)
	if dstV == "-" || region == 1 || region == 2 {
		vrt.Assert(exc != nil, "an invalid descriptor raises an exception")
		return
	}
	if region == 3 {
		vrt.Reach("huge destination handled")
		return
	}
	srcOK := vrt.Or(src == -1, vrt.And(0 <= src, src < nports))
	if exc != nil {
		vrt.Assert(vrt.Not(vrt.And(0 <= dst, srcOK)), "valid descriptors are accepted")
		return
	}
	vrt.Assert(vrt.And(0 <= dst, srcOK), "invalid descriptors raise an exception")
	d := vrt.Concrete(dst)
	vrt.Assert(0 <= d && d < len(fm.ports), "port table covers the destination")
	if src == -1 {
		p := fm.ports[d]
		vrt.Assert(p != nil && p.sendError != nil, "n>&- installs a port whose value output raises")
	} else {
		s := vrt.Concrete(src)
		if 0 <= s && s < len(before) {
			vrt.Assert(fm.ports[d] == before[s], "n>&m makes port n the port m")
		}
	}
	for i := range before {
		if i != d {
			vrt.Assert(fm.ports[i] == before[i], "other ports are untouched")
		}
	}
}

// VerifC42FileRedir: redirection to an open file value with each mode and an
// arbitrary destination descriptor.
func VerifC42FileRedir(nports int) {
	fm := verifFrame(nports)
	f := &os.File{}
	mode := []parse.RedirMode{parse.Read, parse.Write, parse.ReadWrite, parse.Append}[vrt.Choice("mode", 4)]
	useDst := vrt.Bool("explicit")
	op := &redirOp{srcOp: verifValOp{vals: []any{f}}, mode: mode, flag: makeFlag(mode)}
	dst := 1
	if mode == parse.Read {
		dst = 0
	}
	if useDst {
		n := vrt.Int("dst")
		vrt.Assume(n < 8)
		op.dstOp = verifValOp{vals: []any{n}}
		dst = n
	}
	var fops []formOwnedPort
	exc := op.exec(fm, &fops)
	if exc != nil {
		vrt.Assert(dst < 0, "valid destination accepted")
		return
	}
	vrt.Assert(0 <= dst, "a negative destination descriptor raises an exception")
	d := vrt.Concrete(dst)
	p := fm.ports[d]
	vrt.Assert(p != nil && p.File == f, "the port carries the file")
	if mode == parse.Read {
		vrt.Assert(p.Chan == ClosedChan, "input redirection: no values to read")
	} else {
		vrt.Assert(p.sendError != nil, "output redirection to a file: value output raises")
	}
	vrt.Assert(d < len(fops) && !fops[d].File, "a file passed as a value is not owned (not closed) by the form")
}

// VerifC42Flags: open flags per redirection mode.
func VerifC42Flags() {
	vrt.Assert(makeFlag(parse.Read) == os.O_RDONLY, "< opens read-only")
	vrt.Assert(makeFlag(parse.Write) == os.O_WRONLY|os.O_CREATE|os.O_TRUNC, "> creates and truncates")
	vrt.Assert(makeFlag(parse.Append) == os.O_WRONLY|os.O_CREATE|os.O_APPEND, ">> creates and appends")
	vrt.Assert(makeFlag(parse.ReadWrite) == os.O_RDWR|os.O_CREATE, "<> opens read-write without truncating")
}
