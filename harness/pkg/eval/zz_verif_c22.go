package eval

import (
	"src.elv.sh/pkg/parse"
	vrt "src.elv.sh/pkg/zzvrt"
)

// module graph on the harness file system; each module logs its evaluation
// with the harness command `tick`
type verifMod struct {
	file string   // path below the root, without .elv
	uses []string // modules (by index name) it imports, in order, after ticking
	spec []string // the spec text used for each import
	fail bool     // ends with `fail boom`
}

var verifC22Mods = map[string]verifMod{
	"a":  {file: "lib/a"},
	"b":  {file: "lib/b", uses: []string{"a"}, spec: []string{"a"}},
	"c":  {file: "lib/c", uses: []string{"a"}, spec: []string{"./a"}},
	"d":  {file: "lib/sub/d", uses: []string{"a"}, spec: []string{"../a"}},
	"f":  {file: "lib/f", fail: true},
	"g":  {file: "lib/g", uses: []string{"f"}, spec: []string{"f"}},
	"y1": {file: "lib/y1", uses: []string{"y2"}, spec: []string{"y2"}},
	"y2": {file: "lib/y2", uses: []string{"y1"}, spec: []string{"y1"}},
	"r":  {file: "r"},
}

// top-level imports: spec text, module, and whether the importing code is a file
var verifC22Ops = []struct {
	spec, mod string
	fromFile  bool
}{
	{"a", "a", false}, {"b", "b", false}, {"c", "c", false}, {"sub/d", "d", false}, {"f", "f", false},
	{"g", "g", false}, {"y1", "y1", false}, {"y2", "y2", false}, {"./r", "r", false}, {"./lib/a", "a", false},
	{"./r", "r", true}, {"./lib/b", "b", true},
}

type verifC22Model struct {
	loaded map[string]bool
	log    []string
}

// imp models `use` of module m; it reports success.
func (md *verifC22Model) imp(m string) bool {
	if md.loaded[m] {
		return true
	}
	md.loaded[m] = true // installed before execution (cycles see it)
	md.log = append(md.log, m)
	mod := verifC22Mods[m]
	ok := true
	for _, u := range mod.uses {
		if !md.imp(u) {
			ok = false
			break
		}
	}
	if ok && mod.fail {
		ok = false
	}
	if !ok {
		delete(md.loaded, m)
	}
	return ok
}

// VerifC22Use: every sequence of nops top-level imports (symbolic choice among
// 12 import statements: library, relative, nested-relative, diamond, cyclic
// and failing modules, from file and non-file code): a module is evaluated at
// most once unless its evaluation failed, importers share one namespace, and
// relative specs resolve against the importing file or the working directory.
func VerifC22Use(nops int) {
	root := vrt.TempDir()
	for name, m := range verifC22Mods {
		code := "tick " + name + "\n"
		for _, s := range m.spec {
			code += "use " + s + "\n"
		}
		if m.fail {
			code += "fail boom\n"
		}
		vrt.WriteFile(root+"/"+m.file+".elv", code)
	}
	vrt.Chdir(root)
	var log []string
	ev := NewEvaler()
	ev.LibDirs = []string{root + "/lib"}
	ev.ExtendBuiltin(BuildNs().AddFn("tick", verifArgFn{func(args []any) error {
		log = append(log, args[0].(string))
		return nil
	}}))
	md := &verifC22Model{loaded: map[string]bool{}}
	first := map[string]*Ns{}
	for i := 0; i < nops; i++ {
		op := verifC22Ops[vrt.Choice("import", len(verifC22Ops))]
		src := parse.Source{Name: "[v]", Code: "use " + op.spec}
		if op.fromFile {
			src = parse.Source{Name: root + "/main.elv", Code: "use " + op.spec, IsFile: true}
		}
		ports, _ := verifPorts()
		err := ev.Eval(src, EvalCfg{Ports: ports})
		want := md.imp(op.mod)
		vrt.Assert((err == nil) == want, "an import succeeds exactly when the module and everything it imports evaluate without exception")
		vrt.Assert(verifSameLog(log, md.log), "modules are evaluated at most once, in import order, and again only after a failed evaluation")
		for name, m := range verifC22Mods {
			ns, cached := ev.modules[root+"/"+m.file]
			vrt.Assert(cached == md.loaded[name], "exactly the successfully evaluated modules are remembered")
			if cached {
				if first[name] == nil {
					first[name] = ns
				}
				vrt.Assert(first[name] == ns, "all importers see the same namespace")
			} else {
				delete(first, name)
			}
		}
	}
	vrt.RemoveAll(root)
	vrt.Reach("imports done")
}
