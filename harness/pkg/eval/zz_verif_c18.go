package eval

import (
	"errors"

	"src.elv.sh/pkg/eval/errs"
	vrt "src.elv.sh/pkg/zzvrt"
)

var errVerifStage = errors.New("stage failed")

// verifStage is the body of one pipeline stage.
type verifStage struct {
	produce int   // values 100*stage+k put on the value output
	consume int   // -1: read input until it ends; j>=0: stop after j values
	fail    bool  // throw after the work
	got     []any // values read
	putErr  error // error of a Put, if any
	puts    int   // successful puts
}

func (st *verifStage) exec(fm *Frame) Exception {
	if st.consume != 0 {
		in := fm.InputChan()
		for st.consume < 0 || len(st.got) < st.consume {
			v, ok := <-in
			if !ok {
				break
			}
			st.got = append(st.got, v)
		}
	}
	out := fm.ValueOutput()
	for k := 0; k < st.produce; k++ {
		if err := out.Put(k); err != nil {
			st.putErr = err
			return &exception{err, nil}
		}
		st.puts++
	}
	if st.fail {
		return &exception{errVerifStage, nil}
	}
	return nil
}

// VerifC18Pipeline: a two-stage pipeline producer | consumer. The producer
// puts np values; the consumer reads all (nc = -1) or stops after nc values;
// either may fail (symbolic). All schedules within the preemption bound.
func VerifC18Pipeline(np, nc int) {
	prod := &verifStage{produce: np, fail: vrt.Bool("producer fails")}
	cons := &verifStage{consume: nc, fail: vrt.Bool("consumer fails")}
	fm := verifCtxFrame()
	// the pipeline's own value output: a port that accepts and drops values
	fm.ports[1] = &Port{Chan: make(chan any, 8), sendStop: make(chan struct{}), sendError: new(error)}
	op := &pipelineOp{forms: []*formOp{
		{body: formBody{specialOp: prod}},
		{body: formBody{specialOp: cons}},
	}}
	exc := op.exec(fm)
	// delivery: the consumer sees a prefix of the producer's values, in order, once each
	for i, v := range cons.got {
		vrt.Assert(v == i, "values arrive exactly once and in order")
	}
	vrt.Assert(len(cons.got) <= prod.puts, "only values that were put are received")
	if nc < 0 {
		vrt.Assert(len(cons.got) == prod.puts, "a reader that reads to the end receives every value")
	}
	if prod.putErr != nil {
		_, gone := prod.putErr.(errs.ReaderGone)
		vrt.Assert(gone, "a put can only fail because the reader is gone")
		vrt.Assert(nc >= 0, "the reader-gone error only occurs when the reader stopped early")
	}
	// exceptions: every stage failure other than reader-gone is reported
	want := 0
	if prod.fail && prod.putErr == nil {
		want++
	}
	if cons.fail {
		want++
	}
	switch want {
	case 0:
		vrt.Assert(exc == nil, "no failure: the pipeline succeeds (a reader-gone producer is not an error)")
	case 1:
		vrt.Assert(exc != nil && exc.Reason() == errVerifStage, "a single stage failure is the pipeline's exception")
	case 2:
		pe, ok := exc.Reason().(PipelineError)
		vrt.Assert(exc != nil && ok && len(pe.Errors) == 2, "several failures are all present in the pipeline error")
	}
}

// VerifC18Errors: composition of the pipeline exception from per-stage results.
func VerifC18Errors(n int) {
	excs := make([]Exception, n)
	bad := 0
	for i := range excs {
		if vrt.Bool("fails") {
			excs[i] = &exception{errVerifStage, nil}
			bad++
		}
	}
	err := MakePipelineError(excs)
	switch {
	case bad == 0:
		vrt.Assert(err == nil, "no failing stage: no error")
	case bad == 1:
		e, ok := err.(Exception)
		vrt.Assert(ok && e.Reason() == errVerifStage, "one failing stage: its exception")
	default:
		pe, ok := err.(PipelineError)
		vrt.Assert(ok && len(pe.Errors) == n, "several failing stages: a pipeline error listing every stage")
		if ok {
			cnt := 0
			for i, e := range pe.Errors {
				if e.Reason() != nil {
					cnt++
					vrt.Assert(excs[i] != nil, "failures stay attached to their stage")
				}
			}
			vrt.Assert(cnt == bad, "every failure is present")
		}
	}
}

// verifByteStage: a stage that writes byte lines and/or reads byte input.
type verifByteStage struct {
	lines   int    // writes "0\n", "1\n", ...
	readAll bool   // reads its byte input to the end
	readOne bool   // reads one chunk and stops
	got     string // bytes read
	wrErr   error
	wrote   int
}

func (st *verifByteStage) exec(fm *Frame) Exception {
	if st.readAll || st.readOne {
		in := fm.InputFile()
		buf := make([]byte, 4)
		for {
			n, err := in.Read(buf)
			st.got += string(buf[:n])
			if err != nil || st.readOne {
				break
			}
		}
	}
	out := fm.ByteOutput()
	for k := 0; k < st.lines; k++ {
		if _, err := out.WriteString(string(rune('0'+k)) + "\n"); err != nil {
			st.wrErr = err
			return &exception{err, nil}
		}
		st.wrote++
	}
	return nil
}

// VerifC18Bytes: producer | consumer over the byte channel: the producer
// writes np lines; the consumer reads to the end (mode 0), reads one chunk and
// stops (mode 1), or reads nothing (mode 2). Every schedule within the
// preemption bound: the bytes read are a prefix of the bytes written, all of
// them when reading to the end; an early-exiting reader never makes the
// writer hang and its broken-pipe error is not the pipeline's error.
func VerifC18Bytes(np, mode int) {
	prod := &verifByteStage{lines: np}
	cons := &verifByteStage{readAll: mode == 0, readOne: mode == 1}
	fm := verifCtxFrame()
	fm.ports[1] = &Port{Chan: make(chan any, 8), sendStop: make(chan struct{}), sendError: new(error)}
	op := &pipelineOp{forms: []*formOp{
		{body: formBody{specialOp: prod}},
		{body: formBody{specialOp: cons}},
	}}
	exc := op.exec(fm)
	all := ""
	for k := 0; k < np; k++ {
		all += string(rune('0'+k)) + "\n"
	}
	vrt.Assert(len(cons.got) <= len(all) && all[:len(cons.got)] == cons.got, "bytes arrive exactly once and in order")
	if mode == 0 {
		vrt.Assert(cons.got == all, "a reader that reads to the end receives every byte")
		vrt.Assert(prod.wrErr == nil, "a writer whose reader reads everything sees no error")
	}
	if prod.wrErr != nil {
		_, gone := prod.wrErr.(errs.ReaderGone)
		vrt.Assert(gone, "a write can only fail because the reader is gone")
	}
	vrt.Assert(exc == nil, "an early-exiting reader is not an error of the pipeline")
}
