package eval

import (
	"src.elv.sh/pkg/eval/vars"
	"src.elv.sh/pkg/parse"
	vrt "src.elv.sh/pkg/zzvrt"
)

// verifEvaler: an interpreter with an empty builtin namespace and two global
// variables; enough for the parser and the compiler (nothing is executed).
func verifEvaler() (*Evaler, *Ns) {
	g := &Ns{
		slots: []vars.Var{&verifCell{"X"}, &verifCell{"Y"}},
		infos: []staticVarInfo{{"x", false, false}, {"y", false, false}},
	}
	ev := &Evaler{builtin: &Ns{}, global: g, modules: map[string]*Ns{}}
	return ev, g
}

// verifGlobalIntact: the global namespace is the same object and still holds
// exactly x = X and y = Y, both live.
func verifGlobalIntact(ev *Evaler, g *Ns) bool {
	if ev.Global() != g || len(g.slots) != 2 || len(g.infos) != 2 {
		return false
	}
	return g.infos[0] == staticVarInfo{"x", false, false} && g.infos[1] == staticVarInfo{"y", false, false} &&
		g.slots[0].Get() == "X" && g.slots[1].Get() == "Y"
}

type verifCell struct{ v any }

func (c *verifCell) Get() any        { return c.v }
func (c *verifCell) Set(x any) error { c.v = x; return nil }

var _ vars.Var = &verifCell{}

func verifPorts() ([]*Port, chan any) {
	ch := make(chan any, 4)
	mk := func() *Port { return &Port{Chan: ch, sendStop: make(chan struct{}), sendError: new(error)} }
	return []*Port{{Chan: ClosedChan}, mk(), mk()}, ch
}

// VerifC16Static: every source of n symbolic bytes that has a parse or a
// compilation error: evaluation reports an error of the same kind as the static
// check, runs nothing, and leaves the global namespace untouched.
func VerifC16Static(n int) {
	code := vrt.Str("code", n)
	src := parse.Source{Name: "[v]", Code: code}
	ev, g := verifEvaler()
	parseErr, _, compileErr := ev.Check(src, nil)
	vrt.Reach("static check done")
	vrt.Assert(verifGlobalIntact(ev, g), "the static check leaves the global namespace as it was")
	vrt.Assume(parseErr != nil || compileErr != nil)
	ports, ch := verifPorts()
	err := ev.Eval(src, EvalCfg{Ports: ports})
	vrt.Assert(err != nil, "code with a static error does not evaluate successfully")
	if parseErr != nil {
		vrt.Assert(len(parse.UnpackErrors(err)) > 0, "a parse error is reported as a parse error")
	} else {
		vrt.Assert(len(UnpackCompilationErrors(err)) > 0, "a compilation error is reported by evaluation exactly when the static check reports one")
	}
	vrt.Assert(len(ch) == 0, "no value output was produced")
	vrt.Assert(verifGlobalIntact(ev, g), "the global namespace is as it was")
}

// VerifC16Seed: window mutants of seed programs with static errors.
func VerifC16Seed(seed, at int) {
	code := verifC16Seeds[seed]
	if at >= len(code) {
		vrt.Reach("window beyond seed")
		return
	}
	if at >= 0 {
		code = code[:at] + vrt.Str("win", 1) + code[at+1:]
	}
	src := parse.Source{Name: "[v]", Code: code}
	ev, g := verifEvaler()
	parseErr, _, compileErr := ev.Check(src, nil)
	vrt.Reach("static check done")
	vrt.Assert(verifGlobalIntact(ev, g), "the static check leaves the global namespace as it was")
	vrt.Assume(parseErr != nil || compileErr != nil)
	ports, ch := verifPorts()
	err := ev.Eval(src, EvalCfg{Ports: ports})
	vrt.Assert(err != nil, "code with a static error does not evaluate successfully")
	vrt.Assert(len(ch) == 0, "no value output was produced")
	vrt.Assert(verifGlobalIntact(ev, g), "the global namespace is as it was")
	if parseErr == nil {
		vrt.Assert(len(UnpackCompilationErrors(err)) > 0, "a compilation error is reported by evaluation exactly when the static check reports one")
	}
}

var verifC16Seeds = []string{
	"var a; put $b", "set c = 1", "var a = 1; var a~ = 2; $x", "fn f { }; g~", "put $nonexistent", "var x; del $y", "put [", "if", "var",
	"del x; put $z", "var x = 1; $z", "fn y { }; z~", "set x = 2; put $z", "var z; del z y; $w", "del y; var", "{ del x }; $z", "tmp x = 1; if",
}
