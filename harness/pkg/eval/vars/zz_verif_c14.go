package vars

import (
	"src.elv.sh/pkg/eval/vals"
	vrt "src.elv.sh/pkg/zzvrt"
)

// Plain Go model of nested values: []any for lists, verifM for maps.
type verifM struct {
	keys []any
	vals []any
}

func (m verifM) get(k any) (any, bool) {
	for i, x := range m.keys {
		if x == k {
			return m.vals[i], true
		}
	}
	return nil, false
}

func (m verifM) with(k any, v any) verifM {
	r := verifM{append([]any{}, m.keys...), append([]any{}, m.vals...)}
	for i, x := range r.keys {
		if x == k {
			r.vals[i] = v
			return r
		}
	}
	r.keys = append(r.keys, k)
	r.vals = append(r.vals, v)
	return r
}

func (m verifM) without(k any) verifM {
	r := verifM{}
	for i, x := range m.keys {
		if x != k {
			r.keys = append(r.keys, x)
			r.vals = append(r.vals, m.vals[i])
		}
	}
	return r
}

// verifToVal builds the real Elvish value of a model.
func verifToVal(m any) any {
	switch m := m.(type) {
	case []any:
		l := vals.EmptyList
		for _, e := range m {
			l = l.Conj(verifToVal(e))
		}
		return l
	case verifM:
		mp := vals.EmptyMap
		for i, k := range m.keys {
			mp = mp.Assoc(k, verifToVal(m.vals[i]))
		}
		return mp
	}
	return m
}

// verifSame: the real value v has exactly the structure and leaves of model m.
func verifSame(v any, m any) bool {
	switch m := m.(type) {
	case []any:
		l, ok := v.(vals.List)
		if !ok || l.Len() != len(m) {
			return false
		}
		for i, e := range m {
			x, _ := l.Index(i)
			if !verifSame(x, e) {
				return false
			}
		}
		return true
	case verifM:
		mp, ok := v.(vals.Map)
		if !ok || mp.Len() != len(m.keys) {
			return false
		}
		for i, k := range m.keys {
			x, ok := mp.Index(k)
			if !ok || !verifSame(x, m.vals[i]) {
				return false
			}
		}
		return true
	}
	return v == m
}

func verifVar(init any) (Var, *any) {
	cur := init
	return FromSetGet(func(v any) error { cur = v; return nil }, func() any { return cur }), &cur
}

// modelAssoc / modelDissoc: nested update of the model along a path.
func verifModelSet(m any, path []any, v any, del bool) any {
	if len(path) == 0 {
		return v
	}
	switch m := m.(type) {
	case []any:
		i := path[0].(int)
		r := append([]any{}, m...)
		r[i] = verifModelSet(m[i], path[1:], v, del)
		return r
	case verifM:
		k := path[0]
		if len(path) == 1 && del {
			return m.without(k)
		}
		old, _ := m.get(k)
		return m.with(k, verifModelSet(old, path[1:], v, del))
	}
	panic("bad path")
}

// VerifC14: a = [ [&k0=[x0 x1] &k1=x2] x3 ], b = [a[0] y]; a history of `steps`
// element assignments / deletions on a; every alias is compared with its
// snapshot after every step.
func VerifC14(steps, nilKey int) {
	x := func() any { return vrt.Int("leaf") }
	inner := []any{x(), x()}
	var k1 any = "k1"
	if nilKey == 1 {
		k1 = nil // the $nil key is stored in a dedicated slot of the map
	}
	mm := verifM{[]any{"k0", k1}, []any{inner, x()}}
	am := []any{mm, x()}
	a0 := verifToVal(am)
	va, _ := verifVar(a0)
	// aliases: the old value of a, its sub-containers, and another variable
	// whose value shares structure with a.
	l0, _ := a0.(vals.List).Index(0)
	bm := []any{mm, x()}
	b0 := vals.MakeList(l0, bm[1])
	vb, _ := verifVar(b0)
	innerVal, _ := l0.(vals.Map).Index("k0")
	type alias struct {
		v any
		m any
	}
	aliases := []alias{{a0, am}, {l0, mm}, {innerVal, inner}, {b0, bm}}

	cur := any(am)
	for s := 0; s < steps; s++ {
		var path []any
		del := false
		switch vrt.Choice("op", 5) {
		case 0: // set a[0][k0][i] = v
			path = []any{0, "k0", vrt.Choice("i", 2)}
		case 1: // set a[0][k1] = v
			path = []any{0, k1}
		case 2: // set a[1] = v
			path = []any{1}
		case 3: // del a[0][k1]
			path, del = []any{0, k1}, true
		case 4: // set a[0][k2] = v (new key)
			path = []any{0, "k2"}
		}
		// skip steps whose path no longer exists in the current value
		okPath := true
		if m0, isM := cur.([]any)[0].(verifM); isM {
			if len(path) == 3 {
				_, okPath = m0.get("k0")
			}
			if del {
				_, okPath = m0.get(k1)
			}
		} else {
			okPath = len(path) == 1
		}
		if !okPath {
			continue
		}
		nv := x()
		if del {
			err := DelElement(va, path)
			vrt.Assert(err == nil, "element deletion succeeds")
		} else {
			ev, err := MakeElement(va, path)
			vrt.Assert(err == nil, "element variable created")
			if err != nil {
				return
			}
			vrt.Assert(ev.Set(nv) == nil, "element assignment succeeds")
		}
		cur = verifModelSet(cur, path, nv, del)
		vrt.Assert(verifSame(va.Get(), cur), "the variable is rebound to the nested assoc/dissoc of its old value")
		for _, al := range aliases {
			vrt.Assert(verifSame(al.v, al.m), "values seen elsewhere keep their contents")
		}
		vrt.Assert(verifSame(vb.Get(), bm), "other variables keep their values")
		aliases = append(aliases, alias{va.Get(), cur})
	}
}
