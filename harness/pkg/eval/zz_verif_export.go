package eval

// VerifPorts gives harnesses in other packages a port set whose value output
// is a buffered channel the harness can read afterwards.
func VerifPorts(capacity int) ([]*Port, chan any) {
	ch := make(chan any, capacity)
	mk := func() *Port { return &Port{Chan: ch, sendStop: make(chan struct{}), sendError: new(error)} }
	return []*Port{{Chan: ClosedChan}, mk(), mk()}, ch
}
