package eval

import (
	"errors"
	"strconv"

	"src.elv.sh/pkg/eval/vals"
	"src.elv.sh/pkg/eval/vars"
	"src.elv.sh/pkg/parse"
	vrt "src.elv.sh/pkg/zzvrt"
)

// A tiny world for running real compiled programs without the reflection-built
// builtin module: commands `log`, `maybe`, `brk`, `cnt`, `ret` are harness
// callables; conditions are variables holding symbolic booleans.

type verifWorld struct {
	log    []string
	action []int // per `maybe i`: 0 ok, 1 fail
}

type verifFail struct{ id int }

func (f verifFail) Error() string { return "fail " + strconv.Itoa(f.id) }

func (w *verifWorld) builtins(conds []any) *Ns {
	nb := BuildNs()
	nb.AddFn("log", verifArgFn{func(args []any) error {
		for _, a := range args {
			w.log = append(w.log, vals.ToString(a))
		}
		return nil
	}})
	nb.AddFn("maybe", verifArgFn{func(args []any) error {
		i, _ := strconv.Atoi(args[0].(string))
		w.log = append(w.log, "m"+args[0].(string))
		if w.action[i] == 1 {
			return verifFail{i}
		}
		return nil
	}})
	nb.AddFn("brk", verifArgFn{func([]any) error { return Break }})
	nb.AddFn("cnt", verifArgFn{func([]any) error { return Continue }})
	nb.AddFn("ret", verifArgFn{func([]any) error { return Return }})
	for i, c := range conds {
		nb.AddVar("c"+strconv.Itoa(i), &verifCell{c})
	}
	return nb.Ns()
}

type verifArgFn struct{ f func(args []any) error }

func (c verifArgFn) Call(fm *Frame, args []any, opts map[string]any) error { return c.f(args) }

func (w *verifWorld) run(code string, conds []any) error {
	ev := &Evaler{builtin: w.builtins(conds), global: &Ns{}, modules: map[string]*Ns{}}
	ports, _ := verifPorts()
	return ev.Eval(parse.Source{Name: "[v]", Code: code}, EvalCfg{Ports: ports})
}

func verifSameLog(got, want []string) bool {
	if len(got) != len(want) {
		return false
	}
	for i := range got {
		if got[i] != want[i] {
			return false
		}
	}
	return true
}

func verifReasonIs(err error, f int) bool {
	var vf verifFail
	return err != nil && errors.As(Reason(err), &vf) && vf.id == f
}

// VerifC15Try: try/catch/else/finally with every block failing or not.
func VerifC15Try(hasCatch, hasElse, hasFinally int) {
	w := &verifWorld{action: make([]int, 4)}
	for i := range w.action {
		w.action[i] = vrt.Choice("fails", 2)
	}
	code := "try { log b; maybe 0; log b2 }"
	if hasCatch == 1 {
		code += " catch e { log c; maybe 1 }"
	}
	if hasElse == 1 {
		code += " else { log e; maybe 2 }"
	}
	if hasFinally == 1 {
		code += " finally { log f; maybe 3 }"
	}
	code += "\nlog after"
	err := w.run(code, nil)
	// reference semantics
	want := []string{"b", "m0"}
	pending := -1 // failure currently propagating
	if w.action[0] == 1 {
		pending = 0
		if hasCatch == 1 {
			want = append(want, "c", "m1")
			pending = -1
			if w.action[1] == 1 {
				pending = 1
			}
		}
	} else {
		want = append(want, "b2")
		if hasElse == 1 {
			want = append(want, "e", "m2")
			if w.action[2] == 1 {
				pending = 2
			}
		}
	}
	if hasFinally == 1 {
		want = append(want, "f", "m3")
		if w.action[3] == 1 {
			pending = 3 // the finally block's exception replaces a pending one
		}
	}
	if pending < 0 {
		want = append(want, "after")
		vrt.Assert(err == nil, "try: no exception escapes when everything is caught or succeeds")
	} else {
		vrt.Assert(verifReasonIs(err, pending), "try: the exception that escapes is the one the reference prescribes")
	}
	vrt.Assert(verifSameLog(w.log, want), "try: blocks run in the order and under the conditions the reference prescribes")
}

// VerifC15For: for over a 3-element list with break / continue / failure at
// symbolic iterations, with else.
func VerifC15For(n int) {
	w := &verifWorld{action: make([]int, 1)}
	brkAt, cntAt, failAt := vrt.Choice("break at", 4), vrt.Choice("continue at", 4), vrt.Choice("fail at", 4)
	list := "["
	for i := 0; i < n; i++ {
		list += " x" + strconv.Itoa(i)
	}
	list += "]"
	code := "for v " + list + " {\n log $v\n"
	code += " if $c0 { if (eq) { } }\n"
	code += "}"
	_ = code
	// the body decides by the element which flow command to run
	prog := "for v " + list + " { log $v"
	for i := 0; i < n; i++ {
		tag := "x" + strconv.Itoa(i)
		if i == brkAt {
			prog += "; if $b" + strconv.Itoa(i) + " { brk }"
		}
		if i == cntAt {
			prog += "; if $b" + strconv.Itoa(i) + " { cnt }"
		}
		if i == failAt {
			prog += "; if $b" + strconv.Itoa(i) + " { maybe 0 }"
		}
		_ = tag
	}
	prog += "; log end } else { log else }\nlog after"
	// $b<i> is true exactly when the current element is x<i>: model with one
	// variable per element that the harness flips through the loop variable
	// itself: simpler: compare by value with a harness command
	_ = prog
	// final program: use `is` command provided by the harness
	body := "for v " + list + " { log $v; step $v; log end } else { log else }\nlog after"
	var want []string
	var expectFail bool
	stopped := false
	for i := 0; i < n && !stopped; i++ {
		want = append(want, "x"+strconv.Itoa(i))
		switch {
		case i == brkAt:
			stopped = true
		case i == cntAt:
		case i == failAt:
			stopped, expectFail = true, true
		default:
			want = append(want, "end")
		}
	}
	if n == 0 {
		want = append(want, "else")
	}
	if !expectFail {
		want = append(want, "after")
	}
	nb := w.builtins(nil)
	step := verifArgFn{func(args []any) error {
		k, _ := strconv.Atoi(args[0].(string)[1:])
		switch {
		case k == brkAt:
			return Break
		case k == cntAt:
			return Continue
		case k == failAt:
			return verifFail{9}
		}
		return nil
	}}
	nb.slots = append(nb.slots, vars.NewReadOnly(step))
	nb.infos = append(nb.infos, staticVarInfo{"step~", true, false})
	ev := &Evaler{builtin: nb, global: &Ns{}, modules: map[string]*Ns{}}
	ports, _ := verifPorts()
	err := ev.Eval(parse.Source{Name: "[v]", Code: body}, EvalCfg{Ports: ports})
	if expectFail {
		vrt.Assert(verifReasonIs(err, 9), "for: a failure in the body stops the loop and propagates")
	} else {
		vrt.Assert(err == nil, "for: break and continue are consumed by the loop")
	}
	vrt.Assert(verifSameLog(w.log, want), "for: iterations, break, continue and else as the reference prescribes")
}

// verifLogCell logs every read, making operand evaluation observable.
type verifLogCell struct {
	w    *verifWorld
	name string
	v    any
}

func (c *verifLogCell) Get() any        { c.w.log = append(c.w.log, c.name); return c.v }
func (c *verifLogCell) Set(x any) error { c.v = x; return nil }

// VerifC15AndOr: short-circuit evaluation of and / or / coalesce: operands are
// variables whose reads are logged; the result is the value output.
func VerifC15AndOr(which int) {
	w := &verifWorld{action: make([]int, 1)}
	b := []bool{vrt.Bool("c0"), vrt.Bool("c1"), vrt.Bool("c2")}
	nb := BuildNs()
	for i := range b {
		var v any = b[i]
		if which == 2 {
			v = nil
			if b[i] {
				v = "v" + strconv.Itoa(i)
			}
		}
		nb.AddVar("c"+strconv.Itoa(i), &verifLogCell{w, "g" + strconv.Itoa(i), v})
	}
	code := []string{"and $c0 $c1 $c2", "or $c0 $c1 $c2", "coalesce $c0 $c1 $c2"}[which]
	ev := &Evaler{builtin: nb.Ns(), global: &Ns{}, modules: map[string]*Ns{}}
	ports, ch := verifPorts()
	err := ev.Eval(parse.Source{Name: "[v]", Code: code}, EvalCfg{Ports: ports})
	vrt.Assert(err == nil, "and/or/coalesce evaluate without exception")
	// reference: evaluate left to right, stop at the first deciding operand
	want := []string{}
	var out any
	for i := range b {
		want = append(want, "g"+strconv.Itoa(i))
		switch which {
		case 0:
			out = b[i]
		case 1:
			out = b[i]
		case 2:
			out = nil
			if b[i] {
				out = "v" + strconv.Itoa(i)
			}
		}
		if (which == 0 && !b[i]) || (which != 0 && b[i]) {
			break
		}
	}
	vrt.Assert(verifSameLog(w.log, want), "operands are evaluated left to right and evaluation stops at the deciding operand")
	vrt.Assert(len(ch) == 1, "exactly one value is output")
	got := <-ch
	vrt.Assert(got == out, "the output is the deciding operand's value (or the last one)")
}

// VerifC15While: loop runs while the condition variable is true; the body
// flips it after k iterations; else runs only if the body never ran.
func VerifC15While(k int) {
	w := &verifWorld{action: make([]int, 1)}
	count := 0
	cond := &verifCell{k > 0}
	nb := w.builtins(nil)
	nb.slots = append(nb.slots, cond)
	nb.infos = append(nb.infos, staticVarInfo{"c0", false, false})
	tick := verifArgFn{func(args []any) error {
		count++
		if count >= k {
			cond.Set(false)
		}
		return nil
	}}
	nb.slots = append(nb.slots, vars.NewReadOnly(tick))
	nb.infos = append(nb.infos, staticVarInfo{"tick~", true, false})
	ev := &Evaler{builtin: nb, global: &Ns{}, modules: map[string]*Ns{}}
	ports, _ := verifPorts()
	err := ev.Eval(parse.Source{Name: "[v]", Code: "while $c0 { log i; tick } else { log else }\nlog after"}, EvalCfg{Ports: ports})
	vrt.Assert(err == nil, "while terminates without exception")
	var want []string
	for i := 0; i < k; i++ {
		want = append(want, "i")
	}
	if k == 0 {
		want = append(want, "else")
	}
	want = append(want, "after")
	vrt.Assert(verifSameLog(w.log, want), "while: body runs while the condition holds; else only if it never ran")
}

// VerifC15Closure: arity checking and rest-argument binding of closures.
func VerifC15Closure(nargs int) {
	w := &verifWorld{action: make([]int, 1)}
	call := "$f~"
	for i := 0; i < nargs; i++ {
		call += " a" + strconv.Itoa(i)
	}
	code := "var f~ = {|x @rest y| log $x $@rest $y }\n" + call
	err := w.run(code, nil)
	if nargs < 2 {
		vrt.Assert(err != nil, "closure: too few arguments raise an arity exception")
		vrt.Assert(len(w.log) == 0, "closure: the body does not run on an arity mismatch")
		return
	}
	vrt.Assert(err == nil, "closure: enough arguments are accepted")
	var want []string
	for i := 0; i < nargs; i++ {
		want = append(want, "a"+strconv.Itoa(i))
	}
	vrt.Assert(verifSameLog(w.log, want), "closure: first, rest and last parameters receive the arguments in order")
}
