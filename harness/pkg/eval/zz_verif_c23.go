package eval

import (
	"src.elv.sh/pkg/glob"
	vrt "src.elv.sh/pkg/zzvrt"
)

var verifC23Mods = []string{"match-hidden", "nomatch-ok", "set:.a", "range:a-c", "range:a~c", "digit", "but:x", "type:dir", "type:regular"}

func verifC23Spec(mod string, r rune) bool {
	switch mod {
	case "set:.a":
		return r == '.' || r == 'a'
	case "range:a-c":
		return 'a' <= r && r <= 'c'
	case "range:a~c":
		return 'a' <= r && r < 'c'
	}
	return false
}

// VerifC23Modifiers: every sequence of k index modifiers applied to a ?, * or
// ** wildcard: the resulting pattern carries match-hidden once it was given
// (in any position), every matcher in order with its documented meaning on a
// symbolic rune, the but: names, nomatch-ok and a single type: modifier.
func VerifC23Modifiers(k, wtype int) {
	typ := []glob.WildType{glob.Question, glob.Star, glob.StarStar}[wtype]
	var cur any = globPattern{Pattern: glob.Pattern{Segments: []glob.Segment{glob.Literal{Data: "p"}, glob.Wild{Type: typ}}}}
	hidden, nomatch, typed := false, false, false
	var matchers, buts []string
	for i := 0; i < k; i++ {
		mod := verifC23Mods[vrt.Choice("modifier", len(verifC23Mods))]
		next, err := cur.(globPattern).Index(mod)
		if mod == "type:dir" || mod == "type:regular" {
			if typed {
				vrt.Assert(err == ErrMultipleTypeModifiers, "a second type: modifier is rejected")
				return
			}
			typed = true
		}
		vrt.Assert(err == nil, "a valid modifier is accepted")
		if err != nil {
			return
		}
		cur = next
		switch mod {
		case "match-hidden":
			hidden = true
		case "nomatch-ok":
			nomatch = true
		case "but:x":
			buts = append(buts, "x")
		case "type:dir", "type:regular":
		default:
			matchers = append(matchers, mod)
		}
	}
	gp := cur.(globPattern)
	vrt.Assert(len(gp.Segments) == 2, "modifiers do not add or remove segments")
	w, ok := gp.Segments[1].(glob.Wild)
	vrt.Assert(ok && w.Type == typ, "the wildcard keeps its type")
	vrt.Assert(w.MatchHidden == hidden, "match-hidden holds exactly when it was given, wherever it was given")
	vrt.Assert(gp.Flags.Has(noMatchOK) == nomatch, "nomatch-ok is recorded exactly when given")
	vrt.Assert((gp.TypeCb != nil) == typed, "the type: restriction is recorded exactly when given")
	vrt.Assert(len(gp.Buts) == len(buts), "but: names are recorded")
	vrt.Assert(len(w.Matchers) == len(matchers), "every matcher modifier adds one matcher")
	r := vrt.Rune("r")
	vrt.Assume(vrt.And(r >= 0, r <= 0x10FFFF))
	for i, m := range matchers {
		if i < len(w.Matchers) && m != "digit" {
			vrt.Assert(w.Matchers[i](r) == verifC23Spec(m, r), "each matcher accepts exactly the runes its modifier names, in the order given")
		}
	}
}
