package eval

import (
	"strconv"

	"src.elv.sh/pkg/parse"
	vrt "src.elv.sh/pkg/zzvrt"
)

// Nested control flow: programs are generated from a small grammar of the core
// constructs (choice points enumerate every shape within the budget), rendered
// to Elvish source, run by the real parser/compiler/evaluator, and compared
// with a reference interpreter over the same tree written from the language
// reference (website/ref/language.md: try, for, if, fn, exception capture).

const (
	vLog = iota
	vAct
	vTry
	vFor
	vIf
	vFn
	vLambda
	vCapture
	vWhile
)

type vNode struct {
	kind                  int
	id                    int
	n                     int // for: number of elements
	cond                  int // if: index of the condition variable
	body, catch, els, fin []*vNode
}

type vGen struct {
	budget  int
	next    int
	nconds  int
	nwhiles int
	whileN  []int
}

func (g *vGen) block(depth int) []*vNode {
	id := g.next
	g.next++
	return []*vNode{{kind: vLog, id: id}, g.stmt(depth), {kind: vLog, id: id + 100}}
}

func (g *vGen) stmt(depth int) *vNode {
	id := g.next
	g.next++
	if g.budget == 0 || depth == 0 {
		return &vNode{kind: vAct, id: id}
	}
	k := vrt.Choice("shape", 17)
	if k == 0 {
		return &vNode{kind: vAct, id: id}
	}
	g.budget--
	n := &vNode{id: id}
	switch k {
	case 1, 2, 3, 4, 5:
		n.kind = vTry
		n.body = g.block(depth - 1)
		if k != 2 {
			n.catch = g.block(depth - 1)
		}
		if k == 3 || k == 5 {
			n.els = g.block(depth - 1)
		}
		if k == 2 || k == 4 || k == 5 {
			n.fin = g.block(depth - 1)
		}
	case 6, 7, 8:
		n.kind = vFor
		n.n = k - 6
		n.body = g.block(depth - 1)
		if k == 6 {
			n.els = g.block(depth - 1)
		}
	case 9, 10:
		n.kind = vIf
		n.cond = g.nconds
		g.nconds++
		n.body = g.block(depth - 1)
		if k == 10 {
			n.els = g.block(depth - 1)
		}
	case 11:
		n.kind = vFn
		n.body = g.block(depth - 1)
	case 12:
		n.kind = vLambda
		n.body = g.block(depth - 1)
	case 13:
		n.kind = vCapture
		n.body = g.block(depth - 1)
	case 14, 15, 16:
		// the condition variable reads true n times, then false (cyclically)
		n.kind = vWhile
		n.n = k - 14
		n.cond = g.nwhiles
		g.nwhiles++
		g.whileN = append(g.whileN, n.n)
		n.body = g.block(depth - 1)
		if k != 16 {
			n.els = g.block(depth - 1)
		}
	}
	return n
}

func vRender(b []*vNode) string {
	s := ""
	for _, n := range b {
		id := strconv.Itoa(n.id)
		switch n.kind {
		case vLog:
			s += "log L" + id + "\n"
		case vAct:
			s += "act " + id + "\n"
		case vTry:
			s += "try {\n" + vRender(n.body) + "}"
			if n.catch != nil {
				s += " catch e" + id + " {\n" + vRender(n.catch) + "}"
			}
			if n.els != nil {
				s += " else {\n" + vRender(n.els) + "}"
			}
			if n.fin != nil {
				s += " finally {\n" + vRender(n.fin) + "}"
			}
			s += "\n"
		case vFor:
			s += "for x" + id + " ["
			for i := 0; i < n.n; i++ {
				s += " v" + strconv.Itoa(i)
			}
			s += " ] {\nlog $x" + id + "\n" + vRender(n.body) + "}"
			if n.els != nil {
				s += " else {\n" + vRender(n.els) + "}"
			}
			s += "\n"
		case vIf:
			s += "if $c" + strconv.Itoa(n.cond) + " {\n" + vRender(n.body) + "}"
			if n.els != nil {
				s += " else {\n" + vRender(n.els) + "}"
			}
			s += "\n"
		case vFn:
			s += "fn f" + id + " {\n" + vRender(n.body) + "}\nf" + id + "\n"
		case vLambda:
			s += "{\n" + vRender(n.body) + "}\n"
		case vWhile:
			s += "while $w" + strconv.Itoa(n.cond) + " {\n" + vRender(n.body) + "}"
			if n.els != nil {
				s += " else {\n" + vRender(n.els) + "}"
			}
			s += "\n"
		case vCapture:
			s += "if ?(\n" + vRender(n.body) + ") { log ok" + id + " } else { log ex" + id + " }\n"
		}
	}
	return s
}

// outcome of running a block: 0 normal, 1 fail(id), 2 break, 3 continue, 4 return
type vOut struct{ kind, id int }

type vStep struct{ id, action int }

type vRef struct {
	log   []string
	trace []vStep
	pos   int
	conds []bool
	bad   bool
	wcnt  []int // reads of each while condition so far
	wn    []int
}

// vWhileCell is the condition variable of a while loop: it reads true n times,
// then false, cyclically.
type vWhileCell struct{ cnt, n int }

func (c *vWhileCell) Get() any {
	c.cnt++
	return c.cnt%(c.n+1) != 0
}
func (c *vWhileCell) Set(x any) error { return nil }

func (r *vRef) block(b []*vNode) vOut {
	for _, n := range b {
		if o := r.node(n); o.kind != 0 {
			return o
		}
	}
	return vOut{}
}

func (r *vRef) node(n *vNode) vOut {
	id := strconv.Itoa(n.id)
	switch n.kind {
	case vLog:
		r.log = append(r.log, "L"+id)
	case vAct:
		r.log = append(r.log, "a"+id)
		if r.pos >= len(r.trace) || r.trace[r.pos].id != n.id {
			r.bad = true
			return vOut{1, -1}
		}
		a := r.trace[r.pos].action
		r.pos++
		if a != 0 {
			return vOut{a, n.id}
		}
	case vTry:
		o := r.block(n.body)
		if o.kind != 0 {
			if n.catch != nil {
				o = r.block(n.catch)
			}
		} else if n.els != nil {
			o = r.block(n.els)
		}
		if n.fin != nil {
			if of := r.block(n.fin); of.kind != 0 {
				return of
			}
		}
		return o
	case vFor:
		for i := 0; i < n.n; i++ {
			r.log = append(r.log, "v"+strconv.Itoa(i))
			o := r.block(n.body)
			if o.kind == 2 {
				break
			}
			if o.kind == 1 || o.kind == 4 {
				return o
			}
		}
		if n.n == 0 && n.els != nil {
			return r.block(n.els)
		}
	case vWhile:
		ran := false
		for {
			r.wcnt[n.cond]++
			if r.wcnt[n.cond]%(r.wn[n.cond]+1) == 0 {
				break
			}
			ran = true
			o := r.block(n.body)
			if o.kind == 2 {
				break
			}
			if o.kind == 1 || o.kind == 4 {
				return o
			}
		}
		if !ran && n.els != nil {
			return r.block(n.els)
		}
	case vIf:
		if r.conds[n.cond] {
			return r.block(n.body)
		} else if n.els != nil {
			return r.block(n.els)
		}
	case vFn:
		o := r.block(n.body)
		if o.kind == 4 {
			return vOut{}
		}
		return o
	case vLambda:
		return r.block(n.body)
	case vCapture:
		o := r.block(n.body)
		if o.kind == 0 {
			r.log = append(r.log, "ok"+id)
		} else {
			r.log = append(r.log, "ex"+id)
		}
	}
	return vOut{}
}

// VerifC15Nested: every program shape with at most `budget` compound
// constructs nested to `depth`, every outcome (ok / fail / break / continue /
// return, the first `nact` of them) of every executed `act` command, and every
// value of the `if` conditions.
func VerifC15Nested(budget, depth, nact int) {
	g := &vGen{budget: budget}
	prog := g.block(depth)
	code := vRender(prog)

	w := &verifWorld{}
	var trace []vStep
	nb := BuildNs()
	nb.AddFn("log", verifArgFn{func(args []any) error {
		w.log = append(w.log, args[0].(string))
		return nil
	}})
	nb.AddFn("act", verifArgFn{func(args []any) error {
		id, _ := strconv.Atoi(args[0].(string))
		w.log = append(w.log, "a"+args[0].(string))
		a := vrt.Choice("action", nact)
		trace = append(trace, vStep{id, a})
		switch a {
		case 1:
			return verifFail{id}
		case 2:
			return Break
		case 3:
			return Continue
		case 4:
			return Return
		}
		return nil
	}})
	conds := make([]bool, g.nconds)
	for i := range conds {
		conds[i] = vrt.Bool("c" + strconv.Itoa(i))
		nb.AddVar("c"+strconv.Itoa(i), &verifCell{conds[i]})
	}
	for i, n := range g.whileN {
		nb.AddVar("w"+strconv.Itoa(i), &vWhileCell{n: n})
	}
	ev := &Evaler{builtin: nb.Ns(), global: &Ns{}, modules: map[string]*Ns{}}
	ports, ch := verifPorts()
	err := ev.Eval(parse.Source{Name: "[v]", Code: code}, EvalCfg{Ports: ports})
	vrt.Reach("program ran")

	r := &vRef{trace: trace, conds: conds, wcnt: make([]int, len(g.whileN)), wn: g.whileN}
	o := r.block(prog)
	vrt.Assert(!r.bad && r.pos == len(trace), "the commands run are the ones the reference interpreter runs, in the same order")
	vrt.Assert(verifSameLog(w.log, r.log), "the program's output equals the reference interpreter's")
	switch o.kind {
	case 0:
		vrt.Assert(err == nil, "a program the reference interpreter completes raises no exception")
	case 1:
		vrt.Assert(verifReasonIs(err, o.id), "the exception raised has the cause the reference interpreter gives")
	case 2:
		vrt.Assert(err != nil && Reason(err) == Break, "an uncaught break escapes as a break exception")
	case 3:
		vrt.Assert(err != nil && Reason(err) == Continue, "an uncaught continue escapes as a continue exception")
	case 4:
		vrt.Assert(err != nil && Reason(err) == Return, "an uncaught return escapes as a return exception")
	}
	vrt.Assert(len(ch) == 0, "no stray value output")
}

var verifC15Progs = []string{
	"put a",
	"put (+ 1 2)",
	"var x = (+ 1 2)\nif (== $x 3) { put yes } else { put no }",
	"each {|x| put $x$x } [a b]",
	"put [a b c][1]",
	"fn f {|a @r &o=d| put $a $r $o }\nf 1 2 3 &o=x",
}

// VerifC15Real: fixed programs run against the real builtin namespace.
func VerifC15Real(k int) {
	ev := NewEvaler()
	ports, ch := verifPorts()
	err := ev.Eval(parse.Source{Name: "[v]", Code: verifC15Progs[k]}, EvalCfg{Ports: ports})
	vrt.Assert(err == nil, "program runs")
	vrt.Assert(len(ch) > 0, "program outputs")
}
