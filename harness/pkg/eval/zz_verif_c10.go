package eval

import (
	"math"

	"src.elv.sh/pkg/eval/vals"
	vrt "src.elv.sh/pkg/zzvrt"
)

func verifOutFrame(capacity int) (*Frame, chan any) {
	fm := verifCtxFrame()
	ch := make(chan any, capacity)
	fm.ports[1] = &Port{Chan: ch, sendStop: make(chan struct{}), sendError: new(error)}
	return fm, ch
}

// verifIdentical: same dynamic type and same bits (distinguishes 1 from 1.0
// and +0.0 from -0.0).
func verifIdentical(a, b any) bool {
	switch a := a.(type) {
	case int:
		b, ok := b.(int)
		return ok && a == b
	case float64:
		b, ok := b.(float64)
		return ok && math.Float64bits(a) == math.Float64bits(b)
	case string:
		b, ok := b.(string)
		return ok && a == b
	}
	return false
}

// verifStableSort: reference stable insertion sort by vals.Cmp.
func verifStableSort(in []any, reverse bool) []any {
	out := append([]any{}, in...)
	for i := 1; i < len(out); i++ {
		for j := i; j > 0; j-- {
			o := vals.Cmp(out[j], out[j-1])
			before := o == vals.CmpLess
			if reverse {
				before = o == vals.CmpMore
			}
			if !before {
				break
			}
			out[j], out[j-1] = out[j-1], out[j]
		}
	}
	return out
}

func verifDrain(ch chan any) []any {
	var out []any
	for len(ch) > 0 {
		out = append(out, <-ch)
	}
	return out
}

// VerifC10Order: n symbolic numbers (mode 0: floats, 1: ints and floats mixed
// within ±2^53, 2: ints), symbolic &reverse.
func VerifC10Order(n, mode int) {
	var in []any
	for i := 0; i < n; i++ {
		isFloat := mode == 0 || (mode == 1 && vrt.Bool("float"))
		if isFloat {
			in = append(in, vrt.Float64("f"))
		} else {
			x := vrt.Int("i")
			if mode == 1 {
				vrt.Assume(vrt.And(-(1<<53) <= x, x <= 1<<53))
			}
			in = append(in, x)
		}
	}
	reverse := vrt.Bool("reverse")
	fm, ch := verifOutFrame(n + 1)
	err := order(fm, orderOptions{Reverse: reverse}, func(f func(any)) {
		for _, v := range in {
			f(v)
		}
	})
	vrt.Assert(err == nil, "mutually comparable values are ordered without error")
	out := verifDrain(ch)
	want := verifStableSort(in, reverse)
	vrt.Assert(len(out) == len(want), "order outputs as many values as it was given")
	for i := range want {
		if i < len(out) {
			vrt.Assert(verifIdentical(out[i], want[i]), "order outputs the stable sorted permutation of its inputs")
		}
	}
}

// VerifC10Merge: 20 concrete ints plus two symbolic floats: reaches the merge
// phase of the stable sort (blocks of 20).
func VerifC10Merge() {
	var in []any
	for i := 0; i < 20; i++ {
		in = append(in, (i*7)%20)
	}
	f1, f2 := vrt.Float64("f1"), vrt.Float64("f2")
	vrt.Assume(vrt.And(vrt.And(-1 <= f1, f1 <= 21), vrt.And(-1 <= f2, f2 <= 21)))
	in = append(in[:5:5], append([]any{f1}, append(in[5:], f2)...)...)
	fm, ch := verifOutFrame(len(in) + 1)
	err := order(fm, orderOptions{}, func(f func(any)) {
		for _, v := range in {
			f(v)
		}
	})
	vrt.Assert(err == nil, "ordered without error")
	out := verifDrain(ch)
	want := verifStableSort(in, false)
	vrt.Assert(len(out) == len(want), "same number of values")
	for i := range want {
		if i < len(out) {
			vrt.Assert(verifIdentical(out[i], want[i]), "order outputs the stable sorted permutation of its inputs (merge phase)")
		}
	}
}

// VerifC10Uncomparable: a string among numbers without &total: order throws
// and outputs nothing.
func VerifC10Uncomparable(n int) {
	var in []any
	for i := 0; i < n; i++ {
		in = append(in, vrt.Float64("f"))
	}
	pos := vrt.Choice("pos", n+1)
	in = append(in[:pos:pos], append([]any{"s"}, in[pos:]...)...)
	fm, ch := verifOutFrame(n + 2)
	err := order(fm, orderOptions{Reverse: vrt.Bool("reverse")}, func(f func(any)) {
		for _, v := range in {
			f(v)
		}
	})
	vrt.Assert(err == ErrUncomparable, "an uncomparable pair makes order throw")
	vrt.Assert(len(ch) == 0, "order outputs nothing when it throws")
}

// VerifC10Stable: n floats each constrained to {-0.0, +0.0, 1.0}: many values
// that compare equal but are distinguishable (sign of zero), enough of them
// (n >= 13) to leave the insertion-sort regime of the library sorts.
func VerifC10Stable(n, rev int) {
	var in []any
	for i := 0; i < n; i++ {
		f := vrt.Float64("f")
		vrt.Assume(vrt.Or(f == 0, f == 1))
		in = append(in, f)
	}
	reverse := rev == 1
	fm, ch := verifOutFrame(n + 1)
	err := order(fm, orderOptions{Reverse: reverse}, func(f func(any)) {
		for _, v := range in {
			f(v)
		}
	})
	vrt.Assert(err == nil, "ordered without error")
	out := verifDrain(ch)
	want := verifStableSort(in, reverse)
	vrt.Assert(len(out) == len(want), "same number of values")
	same := true
	for i := range want {
		if i < len(out) {
			same = vrt.And(same, math.Float64bits(out[i].(float64)) == math.Float64bits(want[i].(float64)))
		}
	}
	vrt.Assert(same, "values that compare equal keep their input order (stable, beyond 12 elements)")
}
