package eval

import (
	"math"

	"src.elv.sh/pkg/eval/vals"
	vrt "src.elv.sh/pkg/zzvrt"
)

// verifSameFloat: identical IEEE results (NaN equals NaN, signed zeros distinguished).
func verifSameFloat(a, b float64) bool {
	if a != a || b != b {
		return a != a && b != b
	}
	return a == b && math.Signbit(a) == math.Signbit(b)
}

// verifArg: kind 0 = machine int, 1 = float64, 2 = big integer beyond int64.
func verifArg(tag string, kind int) (vals.Num, float64) {
	switch kind {
	case 0:
		i := vrt.Int(tag)
		return i, float64(i) // nearest double (round to nearest even)
	case 1:
		f := vrt.Float64(tag)
		return f, f
	}
	z, _ := verifExactInt(tag, 1)
	// integers outside the signed 64-bit range become an infinity of their sign
	return z, math.Inf(z.(interface{ Sign() int }).Sign())
}

// VerifC12Fold: op 0 +, 1 -, 2 *, 3 / on 1..3 arguments of the given kinds
// (-1 = absent), at least one of them a float.
func VerifC12Fold(op, k0, k1, k2 int) {
	var args []vals.Num
	var fs []float64
	anyFloat, exactZero, exactZeroDivisor, anyInf := false, false, false, false
	for i, k := range []int{k0, k1, k2} {
		if k < 0 {
			continue
		}
		a, f := verifArg([]string{"a", "b", "c"}[i], k)
		args = append(args, a)
		fs = append(fs, f)
		if k == 1 {
			anyFloat = true
			if math.IsInf(f, 0) {
				anyInf = true
			}
		}
		if ai, ok := a.(int); ok && ai == 0 {
			exactZero = true
			if i > 0 {
				exactZeroDivisor = true
			}
		}
	}
	vrt.Assume(anyFloat)
	var got any
	var want float64
	switch op {
	case 0:
		got = add(args...)
		want = 0
		for _, f := range fs {
			want += f
		}
	case 1:
		r, err := sub(args...)
		vrt.Assert(err == nil, "subtraction succeeds")
		got = r
		if len(fs) == 1 {
			want = -fs[0]
		} else {
			want = fs[0]
			for _, f := range fs[1:] {
				want -= f
			}
		}
	case 2:
		got = mul(args...)
		if exactZero && !anyInf {
			gi, ok := got.(int)
			vrt.Assert(ok && gi == 0, "product with an exact 0 and no infinity is exact 0")
			return
		}
		want = 1
		for _, f := range fs {
			want *= f
		}
	case 3:
		r, err := div(args...)
		if exactZeroDivisor || (len(args) == 1 && exactZero) {
			vrt.Assert(err != nil, "division by exact 0 raises an exception")
			return
		}
		vrt.Assert(err == nil, "division by inexact numbers succeeds")
		if ai, ok := args[0].(int); ok && ai == 0 {
			gi, ok := r.(int)
			vrt.Assert(ok && gi == 0, "exact 0 divided by non-exact-zero numbers is exact 0")
			return
		}
		got = r
		if len(fs) == 1 {
			want = 1 / fs[0]
		} else {
			want = fs[0]
			for _, f := range fs[1:] {
				want /= f
			}
		}
	}
	gf, ok := got.(float64)
	vrt.Assert(ok, "result with a float argument is a float")
	if ok {
		vrt.Assert(verifSameFloat(gf, want), "result is the IEEE-754 left fold of the converted arguments")
	}
}

// VerifC12Convert: conversion of exact numbers to float64.
func VerifC12Convert(kind int) {
	a, want := verifArg("a", kind)
	got := vals.ConvertToFloat64(a)
	vrt.Assert(verifSameFloat(got, want), "exact numbers convert to the nearest double (out-of-int64 integers to an infinity of their sign)")
	vrt.Assert(verifSameFloat(inexactNum(got), got), "inexact-num of a float is that float")
}

// VerifC12ExactNum: exact-num rejects NaN and infinities, keeps exact numbers.
func VerifC12ExactNum(k int) {
	f := []float64{math.NaN(), math.Inf(1), math.Inf(-1)}[k]
	_, err := exactNum(f)
	vrt.Assert(err != nil, "exact-num of NaN or an infinity raises an exception")
	i := vrt.Int("i")
	r, err := exactNum(i)
	vrt.Assert(err == nil && r == vals.Num(i), "exact-num of an exact number is that number")
}

// VerifC12RatConvert: rationals a/b with a constant denominator b and a
// numerator |a| = base + low, base one of several concrete magnitudes in
// [b*2^53, 2^62) and low a symbolic `bits`-bit window, a not a multiple of b:
// the conversion must give the nearest double. Oracle: with q = |a| div b the
// true value lies strictly between q and q+1, and at this magnitude doubles
// are at least 2 apart, so round-to-nearest of the value equals
// round-to-nearest of q + 1/2, i.e. float64(2q+1)/2 (the odd integer 2q+1 is
// never a tie; int64->float64 and the halving are exact IEEE operations).
func VerifC12RatConvert(b, baseIdx, bits int) {
	b64 := int64(b)
	bases := []int64{b64 << 53, 1<<60 + 12345, 1<<62 - 1<<uint(bits), 0x2aaaaaaaaaaaaaa0, 1<<57 - 1<<uint(bits-1)}
	low := vrt.Int64("low")
	vrt.Assume(vrt.And(low >= 0, low < 1<<uint(bits)))
	abs := bases[baseIdx] + low
	neg := vrt.Bool("negative")
	a := abs
	if neg {
		a = -abs
	}
	q, r := abs/b64, abs%b64
	vrt.Assume(r != 0)
	got := vals.ConvertToFloat64(vrt.MakeRat(a, b64))
	want := float64(2*q+1) / 2
	if neg {
		want = -want
	}
	vrt.Assert(verifSameFloat(got, want), "a rational converts to the nearest double")
}
