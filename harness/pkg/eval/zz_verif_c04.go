package eval

import (
	"math"
	"math/big"

	"src.elv.sh/pkg/eval/vals"
	"src.elv.sh/pkg/parse"
	vrt "src.elv.sh/pkg/zzvrt"
)

func verifBig(s string) *big.Int {
	z, _ := new(big.Int).SetString(s, 10)
	return z
}

// adversarial typed numbers (concrete: their digits are produced by strconv
// and math/big, which run on concrete values)
func verifC04Nums() []any {
	return []any{
		0, -1, math.MaxInt64, math.MinInt64,
		verifBig("9223372036854775808"), verifBig("-9223372036854775809"), verifBig("100000000000000000000"),
		big.NewRat(1, 3), big.NewRat(-22, 7), new(big.Rat).SetFrac(verifBig("100000000000000000001"), verifBig("3")),
		0.0, math.Copysign(0, -1), math.NaN(), math.Inf(1), math.Inf(-1), 1e21, 1e-7, 0.1, 123456789.125, 5e-324, 1.7976931348623157e308,
	}
}

// verifSameValue: eq-equality, plus NaN equals NaN, plus the type of numbers
// and the sign of zero.
func verifSameValue(a, b any) bool {
	if fa, ok := a.(float64); ok {
		fb, ok := b.(float64)
		if !ok {
			return false
		}
		if fa != fa {
			return fb != fb
		}
		return math.Float64bits(fa) == math.Float64bits(fb)
	}
	switch a.(type) {
	case int:
		_, ok := b.(int)
		return ok && vals.Equal(a, b)
	case *big.Int:
		_, ok := b.(*big.Int)
		return ok && vals.Equal(a, b)
	case *big.Rat:
		_, ok := b.(*big.Rat)
		return ok && vals.Equal(a, b)
	}
	return vals.Equal(a, b)
}

func verifC04RoundTrip(v any, same func(a, b any) bool, indents ...int) {
	if len(indents) == 0 {
		indents = []int{math.MinInt, 0}
	}
	for _, indent := range indents {
		text := vals.Repr(v, indent)
		ev := NewEvaler()
		ports, ch := verifPorts()
		err := ev.Eval(parse.Source{Name: "[v]", Code: "put " + text}, EvalCfg{Ports: ports})
		vrt.Assert(err == nil, "the text printed by repr evaluates without error")
		vrt.Assert(len(ch) == 1, "the text printed by repr evaluates to one value")
		if len(ch) == 1 {
			got := <-ch
			vrt.Assert(same(got, v), "evaluating the text printed by repr gives back an equal value")
		}
	}
}

// VerifC04Strings: containers of a fixed shape with symbolic leaf strings of n
// bytes each (shape 0: string, 1: list of two, 2: one-pair map, 3: nested list
// / map / list, 4: $nil, $true and a string in a list).
func VerifC04Strings(shape, n, pretty int) {
	s1, s2 := vrt.Str("s1", n), vrt.Str("s2", n)
	var v any
	switch shape {
	case 0:
		v = s1
	case 1:
		v = vals.MakeList(s1, s2)
	case 2:
		v = vals.MakeMap(s1, s2)
	case 3:
		v = vals.MakeList(vals.MakeList("a"), vals.MakeMap(s1, vals.MakeList(s2, vals.EmptyMap)), vals.EmptyList)
	case 4:
		v = vals.MakeList(nil, true, false, s1)
	}
	verifC04RoundTrip(v, vals.Equal, []int{math.MinInt, 0}[pretty])
	vrt.Reach("round trip done")
}

// VerifC04Nums: each adversarial number alone, in a list and as a map key and
// value: the value read back has the same exactness, type and bits.
func VerifC04Nums(k int) {
	num := verifC04Nums()[k]
	verifC04RoundTrip(num, verifSameValue)
	verifC04RoundTrip(vals.MakeList(num, "x"), func(a, b any) bool {
		la, ok := a.(vals.List)
		if !ok || la.Len() != 2 {
			return false
		}
		e, _ := la.Index(0)
		return verifSameValue(e, num)
	})
	if f, isF := num.(float64); !isF || f == f {
		verifC04RoundTrip(vals.MakeMap(num, num), vals.Equal)
	}
	vrt.Reach("round trip done")
}

// VerifC04MapOrder: three pairs (two symbolic 1-byte keys and the key m)
// inserted in two different orders print identically.
func VerifC04MapOrder(perm int) {
	k := []string{vrt.Str("k0", 1), "m", vrt.Str("k2", 1)}
	vrt.Assume(k[0] != k[1] && k[1] != k[2] && k[0] != k[2])
	orders := [][]int{{0, 1, 2}, {0, 2, 1}, {1, 0, 2}, {1, 2, 0}, {2, 0, 1}, {2, 1, 0}}
	build := func(o []int) vals.Map {
		m := vals.EmptyMap
		for _, i := range o {
			m = m.Assoc(k[i], "v")
		}
		return m
	}
	a, b := build(orders[0]), build(orders[perm])
	vrt.Assert(vals.Repr(a, math.MinInt) == vals.Repr(b, math.MinInt), "the printed order of map entries does not depend on insertion order")
	vrt.Assert(vals.Repr(a, 0) == vals.Repr(b, 0), "the pretty-printed order of map entries does not depend on insertion order")
}
