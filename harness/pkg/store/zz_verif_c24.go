package store

import (
	"strings"

	bolt "go.etcd.io/bbolt"
	. "src.elv.sh/pkg/store/storedefs"
	vrt "src.elv.sh/pkg/zzvrt"
)

// The store runs on the contract model of bbolt (harness/bbolt/model.go).

type verifCmdModel struct {
	cmds []Cmd // live entries in sequence order
	last int   // last sequence number handed out
}

func (m *verifCmdModel) find(seq int) int {
	for i, c := range m.cmds {
		if c.Seq == seq {
			return i
		}
	}
	return -1
}

func verifStore() DBStore {
	db, err := bolt.Open("verif.db", 0644, nil)
	vrt.Assert(err == nil, "model database opens")
	st, err := NewStoreFromDB(db)
	vrt.Assert(err == nil, "store initialises")
	return st
}

func verifSeqArg(name string, m *verifCmdModel) int {
	s := vrt.Int(name)
	vrt.Assume(vrt.And(s >= -2, s <= m.last+2))
	return s
}

// VerifC24Cmd: every history of nops operations on the command history, with
// symbolic operation kinds, texts of tlen bytes, prefixes of <= 1 byte and
// sequence-number arguments in [-2, last+2], against a sequential model.
// Negative bounds follow the documented reading: upto = -1 means "no upper
// bound"; other negative arguments are outside the claim (the code converts
// them to huge unsigned numbers).
func VerifC24Cmd(nops, tlen int) {
	st := verifStore()
	m := &verifCmdModel{}
	verifCmdOps(st, m, nops, tlen)
}

func verifCmdOps(st DBStore, m *verifCmdModel, nops, tlen int) {
	for i := 0; i < nops; i++ {
		switch vrt.Choice("op", 7) {
		case 0:
			text := vrt.Str("text", tlen)
			seq, err := st.AddCmd(text)
			vrt.Assert(err == nil, "AddCmd succeeds")
			vrt.Assert(seq == m.last+1, "sequence numbers strictly increase by one and are never reused")
			m.last++
			m.cmds = append(m.cmds, Cmd{Text: text, Seq: seq})
		case 1:
			seq := verifSeqArg("del", m)
			vrt.Assume(seq >= 0)
			err := st.DelCmd(seq)
			vrt.Assert(err == nil, "DelCmd of a present or absent sequence number succeeds")
			if k := m.find(seq); k >= 0 {
				m.cmds = append(m.cmds[:k:k], m.cmds[k+1:]...)
			}
		case 2:
			seq := verifSeqArg("get", m)
			vrt.Assume(seq >= 0)
			text, err := st.Cmd(seq)
			if k := m.find(seq); k >= 0 {
				vrt.Assert(err == nil && text == m.cmds[k].Text, "Cmd returns the text stored under a live sequence number")
			} else {
				vrt.Assert(err == ErrNoMatchingCmd, "Cmd of an absent sequence number reports no match")
			}
		case 3:
			from, upto := verifSeqArg("from", m), verifSeqArg("upto", m)
			vrt.Assume(vrt.And(from >= 0, upto >= -1))
			got, err := st.CmdsWithSeq(from, upto)
			vrt.Assert(err == nil, "CmdsWithSeq succeeds")
			var want []Cmd
			for _, c := range m.cmds {
				if c.Seq >= from && (upto == -1 || c.Seq < upto) {
					want = append(want, c)
				}
			}
			vrt.Assert(len(got) == len(want), "range listing returns exactly the live entries in range")
			for k := range want {
				if k < len(got) {
					vrt.Assert(got[k] == want[k], "range listing is in sequence order with the stored texts")
				}
			}
		case 4:
			from := verifSeqArg("from", m)
			vrt.Assume(from >= 0)
			prefix := vrt.Str("prefix", vrt.Choice("plen", 2))
			got, err := st.NextCmd(from, prefix)
			found := false
			for _, c := range m.cmds {
				if c.Seq >= from && strings.HasPrefix(c.Text, prefix) {
					vrt.Assert(err == nil && got == c, "NextCmd returns the nearest matching command at or after the number")
					found = true
					break
				}
			}
			if !found {
				vrt.Assert(err == ErrNoMatchingCmd, "NextCmd reports no match when there is none")
			}
		case 5:
			upto := verifSeqArg("upto", m)
			vrt.Assume(upto >= -1)
			prefix := vrt.Str("prefix", vrt.Choice("plen", 2))
			got, err := st.PrevCmd(upto, prefix)
			found := false
			for k := len(m.cmds) - 1; k >= 0; k-- {
				c := m.cmds[k]
				if (upto == -1 || c.Seq < upto) && strings.HasPrefix(c.Text, prefix) {
					vrt.Assert(err == nil && got == c, "PrevCmd returns the nearest matching command strictly before the number")
					found = true
					break
				}
			}
			if !found {
				vrt.Assert(err == ErrNoMatchingCmd, "PrevCmd reports no match when there is none")
			}
		case 6:
			seq, err := st.NextCmdSeq()
			vrt.Assert(err == nil && seq == m.last+1, "NextCmdSeq is one more than the last sequence number handed out")
		}
	}
	vrt.Reach("history done")
}

// VerifC24CmdAfter: two symbolic operations after a concrete pre-history
// (three commands with shared prefixes, the middle one deleted), run through
// the same real API.
func VerifC24CmdAfter(nops, tlen int) {
	st := verifStore()
	m := &verifCmdModel{}
	for _, t := range []string{"a", "ab", "b"} {
		seq, err := st.AddCmd(t)
		vrt.Assert(err == nil && seq == m.last+1, "AddCmd hands out consecutive sequence numbers")
		m.last++
		m.cmds = append(m.cmds, Cmd{Text: t, Seq: seq})
	}
	vrt.Assert(st.DelCmd(2) == nil, "DelCmd succeeds")
	m.cmds = append(m.cmds[:1:1], m.cmds[2:]...)
	verifCmdOps(st, m, nops, tlen)
}

type verifDirModel struct {
	names  []string
	scores []float64
}

func (m *verifDirModel) find(d string) int {
	for i, n := range m.names {
		if n == d {
			return i
		}
	}
	return -1
}

func verifRound(x float64) float64 { return unmarshalScore(marshalScore(x)) }

// VerifC24Dir: every history of nops directory-history operations (visit,
// raw add, delete, list with a blacklist) over 1-byte symbolic directory names
// with concrete increment factors; the stored score's text round trip is taken
// as the rounding function R (scores are compared after R).
func VerifC24Dir(nops int) {
	st := verifStore()
	m := &verifDirModel{}
	for i := 0; i < nops; i++ {
		switch vrt.Choice("op", 4) {
		case 0:
			d := vrt.Str("dir", 1)
			f := []float64{1, 0.5}[vrt.Choice("factor", 2)]
			vrt.Assert(st.AddDir(d, f) == nil, "AddDir succeeds")
			for k := range m.scores {
				m.scores[k] = verifRound(m.scores[k] * DirScoreDecay)
			}
			if k := m.find(d); k >= 0 {
				m.scores[k] = verifRound(m.scores[k] + DirScoreIncrement*f)
			} else {
				m.names = append(m.names, d)
				m.scores = append(m.scores, verifRound(DirScoreIncrement*f))
			}
		case 1:
			d := vrt.Str("dir", 1)
			vrt.Assert(st.(*dbStore).AddDirRaw(d, 7.25) == nil, "AddDirRaw succeeds")
			if k := m.find(d); k >= 0 {
				m.scores[k] = 7.25
			} else {
				m.names = append(m.names, d)
				m.scores = append(m.scores, 7.25)
			}
		case 2:
			d := vrt.Str("dir", 1)
			vrt.Assert(st.DelDir(d) == nil, "DelDir of a present or absent directory succeeds")
			if k := m.find(d); k >= 0 {
				m.names = append(m.names[:k:k], m.names[k+1:]...)
				m.scores = append(m.scores[:k:k], m.scores[k+1:]...)
			}
		case 3:
			bl := vrt.Str("blacklisted", 1)
			got, err := st.Dirs(map[string]struct{}{bl: {}})
			vrt.Assert(err == nil, "Dirs succeeds")
			n := 0
			for k, name := range m.names {
				if name == bl {
					continue
				}
				n++
				found := false
				for _, g := range got {
					if g.Path == name {
						found = g.Score == m.scores[k]
					}
				}
				vrt.Assert(found, "every non-blacklisted directory is listed with its decayed and incremented score")
			}
			vrt.Assert(len(got) == n, "blacklisted and deleted directories are omitted")
			for k := 1; k < len(got); k++ {
				vrt.Assert(got[k-1].Score >= got[k].Score, "listing is sorted by descending score")
			}
		}
	}
	vrt.Reach("history done")
}
