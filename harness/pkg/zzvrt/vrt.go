// Package zzvrt is the nondeterminism / assertion runtime of the verification
// harnesses. Under the symbolic engine every function here is intercepted;
// this native implementation replays recorded values (counterexamples and
// reachability witnesses) against the natively compiled real code.
package zzvrt

import (
	"encoding/json"
	"fmt"
	"math"
	"math/big"
	"os"
	"runtime"
	"sort"
	"strconv"
	"strings"
	"time"
)

type Value struct {
	Name  string `json:"name"`
	Kind  string `json:"kind"`
	Value string `json:"value"`
}

type Replay struct {
	Property string  `json:"property"`
	Harness  string  `json:"harness"`
	Params   []int64 `json:"params"`
	Kind     string  `json:"kind"`
	Site     string  `json:"site"`
	Message  string  `json:"message"`
	Values   []Value `json:"values"`
}

type assertFail struct{ msg string }
type assumeFalse struct{}
type desync struct{ msg string }

var (
	cur     *Replay
	pos     int
	Asserts = map[string]int{}
)

func next(name, kind string) string {
	if cur == nil {
		panic(desync{"no replay loaded"})
	}
	if pos >= len(cur.Values) {
		// values past the recorded ones were unconstrained: zero
		pos++
		return "0"
	}
	v := cur.Values[pos]
	pos++
	base := v.Name
	if i := strings.IndexByte(base, '#'); i >= 0 {
		base = base[:i]
	}
	if base != name || v.Kind != kind {
		panic(desync{fmt.Sprintf("nondet %d: recorded %s/%s, requested %s/%s", pos-1, v.Name, v.Kind, name, kind)})
	}
	return v.Value
}

func u(s string) uint64 {
	if s == "false" {
		return 0
	}
	if s == "true" {
		return 1
	}
	x, err := strconv.ParseUint(s, 0, 64)
	if err != nil {
		i, err2 := strconv.ParseInt(s, 0, 64)
		if err2 != nil {
			panic(desync{"bad value " + s})
		}
		return uint64(i)
	}
	return x
}

func Byte(name string) byte     { return byte(u(next(name, "byte"))) }
func Int(name string) int       { return int(u(next(name, "int"))) }
func Int64(name string) int64   { return int64(u(next(name, "int64"))) }
func Uint64(name string) uint64 { return u(next(name, "uint64")) }
func Uint32(name string) uint32 { return uint32(u(next(name, "uint32"))) }
func Int32(name string) int32   { return int32(u(next(name, "int32"))) }
func Rune(name string) rune     { return rune(int32(u(next(name, "rune")))) }
func Bool(name string) bool     { return u(next(name, "bool")) != 0 }
func Float64(name string) float64 {
	return math.Float64frombits(u(next(name, "float64")))
}

func Bytes(name string, n int) []byte {
	b := make([]byte, n)
	for i := range b {
		b[i] = byte(u(next(fmt.Sprintf("%s[%d]", name, i), "byte")))
	}
	return b
}

func Str(name string, n int) string { return string(Bytes(name, n)) }

// AbsString returns a string of nondeterministic length whose content is
// irrelevant; natively it is materialised only when short enough.
func AbsString(name string) string {
	n := int(u(next(name+".len", "int")))
	if n < 0 || n > 1<<20 {
		panic(desync{"abstract string too long to materialise natively"})
	}
	return strings.Repeat("x", n)
}

// MakeRat returns the rational num/den. Precondition (the caller assumes it):
// den > 0, num != 0 and gcd(num, den) = 1, so the value is already in normal
// form; the engine builds the normal form directly instead of running Euclid's
// algorithm on symbolic words.
func MakeRat(num, den int64) *big.Rat { return big.NewRat(num, den) }

// A small file system for harnesses: natively a fresh temporary directory with
// real files; in the engine an in-memory table consulted by the "vfs" stubs
// for os.ReadFile / os.Stat / os.Getwd.
func TempDir() string {
	d, err := os.MkdirTemp("", "verif-vfs")
	if err != nil {
		panic(err)
	}
	return d
}

func WriteFile(path, content string) {
	if i := strings.LastIndexByte(path, '/'); i > 0 {
		os.MkdirAll(path[:i], 0o755)
	}
	if err := os.WriteFile(path, []byte(content), 0o644); err != nil {
		panic(err)
	}
}

func Chdir(dir string) {
	if err := os.Chdir(dir); err != nil {
		panic(err)
	}
}

func RemoveAll(dir string) { os.RemoveAll(dir) }

// Settle lets every other goroutine run until it has finished or blocks.
// Natively: wait until the goroutine count has been stable for a while.
func Settle() {
	last, stable := runtime.NumGoroutine(), 0
	for i := 0; i < 200 && stable < 5; i++ {
		time.Sleep(2 * time.Millisecond)
		if n := runtime.NumGoroutine(); n == last {
			stable++
		} else {
			last, stable = n, 0
		}
	}
}

// Resources reports the number of open pipe ends / file descriptors and of
// live goroutines. The absolute numbers differ between the engine and a native
// run; harnesses compare two readings.
func Resources() (fds, goroutines int) {
	ents, _ := os.ReadDir("/proc/self/fd")
	return len(ents), runtime.NumGoroutine()
}

func Choice(name string, n int) int { return int(u(next(name, "int"))) }
func Concrete(x int) int            { return x }

func Assume(c bool) {
	if !c {
		panic(assumeFalse{})
	}
}

func Assert(c bool, msg string) {
	Asserts[msg]++
	if !c {
		panic(assertFail{msg})
	}
}

func Fail(msg string) { Assert(false, msg) }

func Reach(msg string) { Asserts["reach:"+msg]++ }

func And(a, b bool) bool     { return a && b }
func Or(a, b bool) bool      { return a || b }
func Not(a bool) bool        { return !a }
func Implies(a, b bool) bool { return !a || b }
func Iff(a, b bool) bool     { return a == b }
func IteInt(c bool, a, b int) int {
	if c {
		return a
	}
	return b
}
func Symbolic() bool { return false }
func Log(v any)      {}

// RunReplay runs the harness named in the replay file $VERIF_REPLAY and prints
// one VERIF-RESULT line.
func RunReplay(fns map[string]func(p []int)) {
	path := os.Getenv("VERIF_REPLAY")
	b, err := os.ReadFile(path)
	if err != nil {
		fmt.Printf("VERIF-RESULT {\"outcome\":\"error\",\"detail\":%q}\n", err.Error())
		return
	}
	var r Replay
	if err := json.Unmarshal(b, &r); err != nil {
		fmt.Printf("VERIF-RESULT {\"outcome\":\"error\",\"detail\":%q}\n", err.Error())
		return
	}
	fn := fns[r.Harness]
	if fn == nil {
		fmt.Printf("VERIF-RESULT {\"outcome\":\"error\",\"detail\":\"no harness %s\"}\n", r.Harness)
		return
	}
	cur, pos = &r, 0
	Asserts = map[string]int{}
	outcome, detail := "ok", ""
	func() {
		defer func() {
			if x := recover(); x != nil {
				switch x := x.(type) {
				case assertFail:
					outcome, detail = "assert", x.msg
				case assumeFalse:
					outcome = "assume-false"
				case desync:
					outcome, detail = "desync", x.msg
				default:
					outcome, detail = "panic", fmt.Sprint(x)
				}
			}
		}()
		p := make([]int, len(r.Params))
		for i, v := range r.Params {
			p[i] = int(v)
		}
		fn(p)
	}()
	keys := make([]string, 0, len(Asserts))
	for k := range Asserts {
		keys = append(keys, k)
	}
	sort.Strings(keys)
	as := map[string]int{}
	for _, k := range keys {
		as[k] = Asserts[k]
	}
	out, _ := json.Marshal(map[string]any{"outcome": outcome, "detail": detail, "asserts": as, "consumed": pos})
	fmt.Printf("VERIF-RESULT %s\n", out)
}
