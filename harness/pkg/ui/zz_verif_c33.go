package ui

import (
	vrt "src.elv.sh/pkg/zzvrt"
)

var verifStyles = []Style{{}, {Bold: true}, {Fg: Red}}
var verifStylings = []Styling{FgRed, Bold, boolToggle{boldField{}}, Reset, FgDefault}

// verifNormal: nil iff empty, no empty segment, no equal adjacent styles.
func verifNormal(t Text, what string) {
	if len(t) == 0 {
		vrt.Assert(t == nil, what+": empty text is nil")
		return
	}
	for i, seg := range t {
		vrt.Assert(seg != nil && seg.Text != "", what+": no empty segment")
		if i > 0 && seg != nil && t[i-1] != nil {
			vrt.Assert(seg.Style != t[i-1].Style, what+": no two adjacent segments with the same style")
		}
	}
}

func verifPlain(t Text) string {
	s := ""
	for _, seg := range t {
		s += seg.Text
	}
	return s
}

// verifText builds a normal-form text: nseg segments (lengths given), each with
// symbolic bytes and a style different from its neighbour's.
func verifText(tag string, lens ...int) Text {
	var t Text
	prev := -1
	for i, l := range lens {
		st := vrt.Choice(tag+"style", len(verifStyles))
		vrt.Assume(st != prev)
		prev = st
		t = append(t, &Segment{Style: verifStyles[st], Text: vrt.Str(tag+"seg"+string(rune('0'+i)), l)})
	}
	return t
}

func verifLens(code int) []int {
	// code: decimal digits = segment lengths, e.g. 12 -> [1,2]; 0 -> empty text
	var l []int
	for ; code > 0; code /= 10 {
		l = append([]int{code % 10}, l...)
	}
	return l
}

// VerifC33Concat: Concat / TextBuilder / Text.Concat / RConcat.
func VerifC33Concat(c1, c2 int) {
	a, b := verifText("a.", verifLens(c1)...), verifText("b.", verifLens(c2)...)
	r := Concat(a, b)
	verifNormal(r, "Concat")
	vrt.Assert(verifPlain(r) == verifPlain(a)+verifPlain(b), "Concat keeps the content")
	r2, err := a.Concat(b)
	vrt.Assert(err == nil, "Text.Concat(Text) works")
	verifNormal(r2.(Text), "Text.Concat(Text)")
	s := vrt.Str("s", 1)
	r3, _ := a.Concat(s)
	verifNormal(r3.(Text), "Text.Concat(string)")
	vrt.Assert(verifPlain(r3.(Text)) == verifPlain(a)+s, "Text.Concat(string) keeps the content")
	r4, _ := a.RConcat(s)
	verifNormal(r4.(Text), "Text.RConcat(string)")
	r5, _ := a.Concat("")
	verifNormal(r5.(Text), "Text.Concat(empty string)")
}

// VerifC33Segment: Segment.Concat / RConcat results are styled text too.
func VerifC33Segment(c1 int) {
	a := verifText("a.", 1)
	b := verifText("b.", verifLens(c1)...)
	seg := a[0]
	r1, _ := seg.Concat(vrt.Str("s", 1))
	verifNormal(r1.(Text), "Segment.Concat(string)")
	r2, _ := seg.Concat(b)
	verifNormal(r2.(Text), "Segment.Concat(Text)")
	if len(b) > 0 {
		r3, _ := seg.Concat(b[0])
		verifNormal(r3.(Text), "Segment.Concat(Segment)")
	}
	r4, _ := seg.RConcat(vrt.Str("s", 1))
	verifNormal(r4.(Text), "Segment.RConcat(string)")
	r5, _ := seg.Concat("")
	verifNormal(r5.(Text), "Segment.Concat(empty string)")
}

// VerifC33Partition: pieces are normal and concatenate back.
func VerifC33Partition(c1 int) {
	a := verifText("a.", verifLens(c1)...)
	n := len(verifPlain(a))
	i, j := vrt.Int("i"), vrt.Int("j")
	vrt.Assume(vrt.And(vrt.And(0 <= i, i <= j), j <= n))
	i, j = vrt.Concrete(i), vrt.Concrete(j)
	parts := a.Partition(i, j)
	vrt.Assert(len(parts) == 3, "Partition at 2 indices gives 3 parts")
	whole := ""
	for _, p := range parts {
		verifNormal(p, "Partition piece")
		whole += verifPlain(p)
	}
	vrt.Assert(whole == verifPlain(a), "partition pieces concatenate back to the original")
	if len(parts) == 3 {
		vrt.Assert(len(verifPlain(parts[0])) == i && len(verifPlain(parts[1])) == j-i, "partition cuts at the requested indices")
	}
	verifNormal(Concat(parts...), "Concat of the pieces")
}

// VerifC33Split: SplitByRune pieces are normal and join back with the separator.
func VerifC33Split(c1 int) {
	a := verifText("a.", verifLens(c1)...)
	parts := a.SplitByRune('\n')
	if len(a) == 0 {
		vrt.Assert(len(parts) == 0, "splitting empty text")
		return
	}
	whole := ""
	for k, p := range parts {
		verifNormal(p, "SplitByRune piece")
		if k > 0 {
			whole += "\n"
		}
		whole += verifPlain(p)
	}
	vrt.Assert(whole == verifPlain(a), "split pieces joined by the separator give back the original")
}

// VerifC33Trim: TrimWcwidth result is a normal prefix within the width.
func VerifC33Trim(c1 int) {
	a := verifText("a.", verifLens(c1)...)
	wmax := vrt.Int("wmax")
	vrt.Assume(vrt.And(-1 <= wmax, wmax <= 8))
	r := a.TrimWcwidth(wmax)
	verifNormal(r, "TrimWcwidth")
	p, full := verifPlain(r), verifPlain(a)
	vrt.Assert(len(p) <= len(full) && p == full[:len(p)], "trimmed text is a prefix")
}

// VerifC33Style: restyling keeps the content; StyleText of normal text.
func VerifC33Style(c1 int) {
	a := verifText("a.", verifLens(c1)...)
	st := verifStylings[vrt.Choice("styling", len(verifStylings))]
	r := StyleText(a, st)
	vrt.Assert(verifPlain(r) == verifPlain(a), "restyling keeps the content")
	verifNormal(r, "StyleText")
	s := vrt.Str("s", 1)
	verifNormal(T(s, st), "T")
	verifNormal(T("", st), "T of empty string")
}
