package diag

import (
	"fmt"

	vrt "src.elv.sh/pkg/zzvrt"
)

// verifOffsetOf is the inverse map used as oracle: the byte offset of the
// 1-based (line, col) in src, or -1 if there is no such line.
func verifOffsetOf(src string, line, col int) int {
	l, start := 1, 0
	for i := 0; i < len(src) && l < line; i++ {
		if src[i] == '\n' {
			l++
			start = i + 1
		}
	}
	if l != line {
		return -1
	}
	return start + col - 1
}

func verifLineEnd(src string, from int) int {
	for i := from; i < len(src); i++ {
		if src[i] == '\n' {
			return i
		}
	}
	return len(src)
}

// VerifC37: n symbolic source bytes, symbolic range.
func VerifC37(n int) {
	src := vrt.Str("src", n)
	from, to := vrt.Int("from"), vrt.Int("to")
	vrt.Assume(vrt.And(vrt.And(0 <= from, from <= to), to <= n))
	c := NewContext("f", src, Ranging{from, to})

	vrt.Assert(c.From == from && c.To == to, "range preserved")
	vrt.Assert(verifOffsetOf(src, c.StartLine, c.StartCol) == from, "start line/col identify the first byte")
	body := src[from:to]
	if len(body) > 0 && body[len(body)-1] == '\n' {
		body = body[:len(body)-1]
	}
	vrt.Assert(c.Body == body, "body is the range minus one trailing newline")
	if len(body) == 0 {
		vrt.Assert(c.EndLine == c.StartLine, "empty range: end line = start line")
		vrt.Assert(c.EndCol == c.StartCol-1, "empty range: end col = start col - 1")
	} else {
		vrt.Assert(verifOffsetOf(src, c.EndLine, c.EndCol) == from+len(body)-1, "end line/col identify the last byte")
	}
	// head+body+tail = text of lines StartLine..EndLine
	ls := verifOffsetOf(src, c.StartLine, 1)
	le0 := verifOffsetOf(src, c.EndLine, 1)
	vrt.Assert(ls >= 0 && le0 >= 0, "lines exist")
	le := verifLineEnd(src, le0)
	vrt.Assert(c.Head+c.Body+c.Tail == src[ls:le], "head+body+tail are the lines containing the range")
	vrt.Assert(c.Head == src[ls:from], "head is the text before the range on its first line")

	// range description format
	var want string
	switch {
	case c.StartLine == c.EndLine && c.EndCol < c.StartCol:
		want = fmt.Sprintf("f:%d:%d", c.StartLine, c.StartCol)
	case c.StartLine == c.EndLine:
		want = fmt.Sprintf("f:%d:%d-%d", c.StartLine, c.StartCol, c.EndCol)
	default:
		want = fmt.Sprintf("f:%d:%d-%d:%d", c.StartLine, c.StartCol, c.EndLine, c.EndCol)
	}
	vrt.Assert(c.describeRange() == want, "range description format")
}
