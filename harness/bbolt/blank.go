package bbolt
