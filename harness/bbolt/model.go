// Contract model of go.etcd.io/bbolt for verification of its clients.
//
// It implements, in plain sequential Go over an in-memory sorted table, the
// documented behaviour of the API subset used by src.elv.sh/pkg/store:
//
//   - a DB holds named buckets; a bucket is a map from non-empty byte keys to
//     byte values, iterated in bytewise key order, plus a sequence counter;
//   - Update runs the function in a read-write transaction and commits unless
//     the function returns an error, in which case every change is rolled
//     back; View runs it read-only (mutations return ErrTxNotWritable);
//   - Get returns nil for a missing key; Delete of a missing key is not an
//     error; Put with an empty key returns ErrKeyRequired;
//   - a Cursor's Seek positions at the first key >= the sought key; First,
//     Last, Next, Prev move as documented and return nil keys at either end;
//   - "Changing data while traversing with a cursor may cause it to be
//     invalidated": replacing the value of an existing key keeps cursors
//     valid (what bbolt does in place and what AddDir relies on); inserting or
//     deleting a key invalidates every open cursor of the bucket, and using an
//     invalidated cursor panics here so that a client relying on undefined
//     behaviour is reported.
package bbolt

import (
	"bytes"
	"errors"
	"os"
	"time"
)

var (
	ErrTxNotWritable  = errors.New("tx not writable")
	ErrKeyRequired    = errors.New("key required")
	ErrBucketNotFound = errors.New("bucket not found")
	ErrDatabaseNotOpen = errors.New("database not open")
)

type Options struct {
	Timeout        time.Duration
	ReadOnly       bool
	NoSync         bool
	NoFreelistSync bool
}

type entry struct {
	k, v []byte
}

type bucketData struct {
	name    string
	entries []entry
	seq     uint64
	version int // bumped when the key set changes
}

type DB struct {
	buckets []*bucketData
	open    bool
}

type Tx struct {
	db       *DB
	writable bool
}

type Bucket struct {
	tx *Tx
	d  *bucketData
}

type Cursor struct {
	b       *Bucket
	pos     int // index into entries; -1 / len = off either end
	version int
}

func Open(path string, mode os.FileMode, options *Options) (*DB, error) {
	return &DB{open: true}, nil
}

func (db *DB) Close() error {
	db.open = false
	return nil
}

func (db *DB) snapshot() []*bucketData {
	var s []*bucketData
	for _, b := range db.buckets {
		c := &bucketData{name: b.name, seq: b.seq, version: b.version}
		c.entries = append([]entry{}, b.entries...)
		s = append(s, c)
	}
	return s
}

func (db *DB) Update(fn func(*Tx) error) error {
	if !db.open {
		return ErrDatabaseNotOpen
	}
	saved := db.snapshot()
	err := fn(&Tx{db: db, writable: true})
	if err != nil {
		// roll back: restore contents into the same bucket objects
		db.buckets = saved
	}
	return err
}

func (db *DB) View(fn func(*Tx) error) error {
	if !db.open {
		return ErrDatabaseNotOpen
	}
	return fn(&Tx{db: db})
}

func (tx *Tx) Bucket(name []byte) *Bucket {
	for _, b := range tx.db.buckets {
		if b.name == string(name) {
			return &Bucket{tx: tx, d: b}
		}
	}
	return nil
}

func (tx *Tx) CreateBucketIfNotExists(name []byte) (*Bucket, error) {
	if !tx.writable {
		return nil, ErrTxNotWritable
	}
	if b := tx.Bucket(name); b != nil {
		return b, nil
	}
	d := &bucketData{name: string(name)}
	tx.db.buckets = append(tx.db.buckets, d)
	return &Bucket{tx: tx, d: d}, nil
}

// find returns the index of the first entry with key >= k and whether it equals k.
func (d *bucketData) find(k []byte) (int, bool) {
	for i, e := range d.entries {
		c := bytes.Compare(e.k, k)
		if c == 0 {
			return i, true
		}
		if c > 0 {
			return i, false
		}
	}
	return len(d.entries), false
}

func (b *Bucket) Get(key []byte) []byte {
	i, ok := b.d.find(key)
	if !ok {
		return nil
	}
	return b.d.entries[i].v
}

func (b *Bucket) Put(key, value []byte) error {
	if !b.tx.writable {
		return ErrTxNotWritable
	}
	if len(key) == 0 {
		return ErrKeyRequired
	}
	k := append([]byte{}, key...)
	v := append([]byte{}, value...)
	i, ok := b.d.find(k)
	if ok {
		b.d.entries[i].v = v
		return nil
	}
	es := append([]entry{}, b.d.entries[:i]...)
	es = append(es, entry{k, v})
	es = append(es, b.d.entries[i:]...)
	b.d.entries = es
	b.d.version++
	return nil
}

func (b *Bucket) Delete(key []byte) error {
	if !b.tx.writable {
		return ErrTxNotWritable
	}
	i, ok := b.d.find(key)
	if !ok {
		return nil
	}
	es := append([]entry{}, b.d.entries[:i]...)
	es = append(es, b.d.entries[i+1:]...)
	b.d.entries = es
	b.d.version++
	return nil
}

func (b *Bucket) Sequence() uint64 { return b.d.seq }

func (b *Bucket) NextSequence() (uint64, error) {
	if !b.tx.writable {
		return 0, ErrTxNotWritable
	}
	b.d.seq++
	return b.d.seq, nil
}

func (b *Bucket) Cursor() *Cursor {
	return &Cursor{b: b, pos: -1, version: b.d.version}
}

func (c *Cursor) check() {
	if c.version != c.b.d.version {
		panic("bbolt contract: cursor used after a key was inserted or deleted in its bucket")
	}
}

func (c *Cursor) at() ([]byte, []byte) {
	es := c.b.d.entries
	if c.pos < 0 || c.pos >= len(es) {
		return nil, nil
	}
	return es[c.pos].k, es[c.pos].v
}

func (c *Cursor) First() ([]byte, []byte) {
	c.version = c.b.d.version
	c.pos = 0
	return c.at()
}

func (c *Cursor) Last() ([]byte, []byte) {
	c.version = c.b.d.version
	c.pos = len(c.b.d.entries) - 1
	return c.at()
}

func (c *Cursor) Seek(seek []byte) ([]byte, []byte) {
	c.version = c.b.d.version
	c.pos, _ = c.b.d.find(seek)
	return c.at()
}

func (c *Cursor) Next() ([]byte, []byte) {
	c.check()
	if c.pos < len(c.b.d.entries) {
		c.pos++
	}
	return c.at()
}

func (c *Cursor) Prev() ([]byte, []byte) {
	c.check()
	if c.pos >= 0 {
		c.pos--
	}
	return c.at()
}
