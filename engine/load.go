package main

import (
	"encoding/json"
	"fmt"
	"os"
	"os/exec"
	"path/filepath"
	"strings"

	"golang.org/x/tools/go/packages"
	"golang.org/x/tools/go/ssa"
	"golang.org/x/tools/go/ssa/ssautil"
)

type ssa_Function = ssa.Function

const (
	repoDir = "/repo"
	modPath = "src.elv.sh"
)

// verifDir is /verif unless VERIF_ROOT points at a snapshot of it.
var verifDir = func() string {
	if d := os.Getenv("VERIF_ROOT"); d != "" {
		return d
	}
	return "/verif"
}()

var harnessDir = verifDir + "/harness"

type HarnessSpec struct {
	Pkg        string               `json:"pkg"`
	Func       string               `json:"func"`
	Cases      map[string][][]int64 `json:"cases"`
	MaxSteps   int64                `json:"max_steps"`
	Stubs      []string             `json:"stubs"`
	Unstub     []string             `json:"unstub"` // externals this harness runs as real code
	EnumInts   bool                 `json:"enum_ints"` // format symbolic ints by enumerating their feasible values
	Sched      bool                 `json:"sched"`
	MaxPreempt int                  `json:"max_preempt"`
	Note       string               `json:"note"`
	stubs      map[string]externalFn
}

type CheckSpec struct {
	Property     string            `json:"property"`
	Packages     []string          `json:"packages"`
	Files        []string          `json:"files"`
	Harnesses    []*HarnessSpec    `json:"harnesses"`
	QueryMs      map[string]int    `json:"query_timeout_ms"`
	BudgetS      map[string]int    `json:"time_budget_s"`
	Bounds       map[string]string `json:"bounds"`
	Assumptions  []string          `json:"assumptions"`
	Outside      []string          `json:"outside_claim"`
	Units        []string          `json:"units"`
	NonExhaustive bool             `json:"non_exhaustive"`
	// ModelPkgs replaces a dependency package by a contract model: every
	// non-test .go file of the module's root package is overlaid by an empty
	// file and the model source is added.
	ModelPkgs []ModelPkg `json:"model_pkgs"`
}

type ModelPkg struct {
	Module string `json:"module"` // module path, e.g. go.etcd.io/bbolt
	Name   string `json:"name"`   // package name
	Model  string `json:"model"`  // file under harness/
}

type KnownFinding struct {
	Property string `json:"property"`
	ID       string `json:"id"`
	Status   string `json:"status"`
	Commit   string `json:"commit,omitempty"`
	Harness  string `json:"harness"`
	Params   []int64 `json:"params,omitempty"`
	Site     string `json:"site"`
	Class    string `json:"class"`
	Text     string `json:"text"`
}

type RunConfig struct {
	Tier           string
	Solver         string
	Verbose        bool
	Trace          bool
	Workers        int
	QueryTimeoutMs int
	SolverLog      string
	Only           string
	Seed           int64
	NoReplay       bool
}

func loadCheckSpec(id string) (*CheckSpec, error) {
	b, err := os.ReadFile(filepath.Join(verifDir, "checks", id+".json"))
	if err != nil {
		return nil, err
	}
	var cs CheckSpec
	if err := json.Unmarshal(b, &cs); err != nil {
		return nil, fmt.Errorf("checks/%s.json: %v", id, err)
	}
	return &cs, nil
}

func loadKnown() []KnownFinding {
	b, err := os.ReadFile(filepath.Join(verifDir, "known_findings.json"))
	if err != nil {
		return nil
	}
	var ks []KnownFinding
	if err := json.Unmarshal(b, &ks); err != nil {
		fmt.Fprintln(os.Stderr, "known_findings.json:", err)
		os.Exit(2)
	}
	return ks
}

// overlayFor maps virtual /repo paths to harness file contents.
func overlayFor(files []string, models ...ModelPkg) (map[string][]byte, map[string]string, error) {
	ov := map[string][]byte{}
	real := map[string]string{}
	for _, m := range models {
		cmd := exec.Command("go", "list", "-m", "-f", "{{.Dir}}", m.Module)
		cmd.Dir = repoDir
		cmd.Env = goEnv()
		out, err := cmd.Output()
		if err != nil {
			return nil, nil, fmt.Errorf("go list -m %s: %v", m.Module, err)
		}
		dir := strings.TrimSpace(string(out))
		ents, err := os.ReadDir(dir)
		if err != nil {
			return nil, nil, err
		}
		blank := filepath.Join(harnessDir, filepath.Dir(m.Model), "blank.go")
		bb, err := os.ReadFile(blank)
		if err != nil {
			return nil, nil, err
		}
		for _, e := range ents {
			n := e.Name()
			if e.IsDir() || !strings.HasSuffix(n, ".go") || strings.HasSuffix(n, "_test.go") {
				continue
			}
			ov[filepath.Join(dir, n)] = bb
			real[filepath.Join(dir, n)] = blank
		}
		src := filepath.Join(harnessDir, m.Model)
		mb, err := os.ReadFile(src)
		if err != nil {
			return nil, nil, err
		}
		// new files cannot be added to a module-cache package by an overlay:
		// the model takes the place of doc.go
		ov[filepath.Join(dir, "doc.go")] = mb
		real[filepath.Join(dir, "doc.go")] = src
	}
	all := append([]string{"pkg/zzvrt/vrt.go"}, files...)
	for _, f := range all {
		src := filepath.Join(harnessDir, f)
		b, err := os.ReadFile(src)
		if err != nil {
			return nil, nil, err
		}
		dst := filepath.Join(repoDir, f)
		ov[dst] = b
		real[dst] = src
	}
	return ov, real, nil
}

func goEnv() []string {
	env := os.Environ()
	env = append(env, "GOFLAGS=-mod=mod", "GOPROXY=off", "GOSUMDB=off", "GOTOOLCHAIN=local", "CGO_ENABLED=0")
	return env
}

func loadProgram(cs *CheckSpec) (*ssa.Program, map[string]*ssa.Package, error) {
	ov, _, err := overlayFor(cs.Files, cs.ModelPkgs...)
	if err != nil {
		return nil, nil, err
	}
	cfg := &packages.Config{
		Mode:    packages.LoadAllSyntax,
		Dir:     repoDir,
		Env:     goEnv(),
		Overlay: ov,
	}
	pats := append([]string{modPath + "/pkg/zzvrt", "unicode/utf8", "errors", "fmt", "runtime", "strings", "sort"}, cs.Packages...)
	pkgs, err := packages.Load(cfg, pats...)
	if err != nil {
		return nil, nil, err
	}
	nerr := 0
	packages.Visit(pkgs, nil, func(p *packages.Package) {
		for _, e := range p.Errors {
			fmt.Fprintln(os.Stderr, "load error:", e)
			nerr++
		}
	})
	if nerr > 0 {
		return nil, nil, fmt.Errorf("%d package load errors (harness does not compile against the current tree?)", nerr)
	}
	prog, spkgs := ssautil.AllPackages(pkgs, ssa.InstantiateGenerics)
	prog.Build()
	byPath := map[string]*ssa.Package{}
	for _, p := range spkgs {
		if p != nil {
			byPath[p.Pkg.Path()] = p
		}
	}
	return prog, byPath, nil
}

func shortPkg(p string) string { return strings.TrimPrefix(p, modPath+"/") }
