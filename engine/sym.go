package main

// Symbolic counterparts of the scalar operators.

import (
	"fmt"
	"go/token"
	"go/types"
	"math"
	"unsafe"
)

func basicOf(t types.Type) *types.Basic {
	b, _ := t.Underlying().(*types.Basic)
	return b
}

func intWidth(k types.BasicKind) int {
	switch k {
	case types.Int8, types.Uint8:
		return 8
	case types.Int16, types.Uint16:
		return 16
	case types.Int32, types.Uint32:
		return 32
	case types.Int, types.Uint, types.Int64, types.Uint64, types.Uintptr, types.UntypedInt:
		return 64
	case types.UntypedRune:
		return 32
	}
	return 0
}

// sortOfType returns the SMT sort for a basic scalar Go type.
func sortOfType(t types.Type) (Sort, bool) {
	b := basicOf(t)
	if b == nil {
		return Sort{}, false
	}
	switch {
	case b.Info()&types.IsBoolean != 0:
		return sortBool, true
	case b.Info()&types.IsInteger != 0:
		return bvSort(intWidth(b.Kind())), true
	case b.Kind() == types.Float64 || b.Kind() == types.UntypedFloat:
		return sortFP64, true
	}
	return Sort{}, false
}

// termOf converts a concrete scalar or *Term to a term.
func (fr *frame) termOf(v value) *Term {
	tt := fr.tt()
	switch v := v.(type) {
	case *Term:
		return v
	case bool:
		return tt.Bool(v)
	case int:
		return tt.BV(64, uint64(v))
	case int8:
		return tt.BV(8, uint64(v))
	case int16:
		return tt.BV(16, uint64(v))
	case int32:
		return tt.BV(32, uint64(v))
	case int64:
		return tt.BV(64, uint64(v))
	case uint:
		return tt.BV(64, uint64(v))
	case uint8:
		return tt.BV(8, uint64(v))
	case uint16:
		return tt.BV(16, uint64(v))
	case uint32:
		return tt.BV(32, uint64(v))
	case uint64:
		return tt.BV(64, v)
	case uintptr:
		return tt.BV(64, uint64(v))
	case float64:
		return tt.FP(v)
	case bad:
		checkBad(v)
	}
	panic(pathEnd{stUnsupported, fmt.Sprintf("termOf(%T)", v)})
}

// valueOfTerm converts a term back to a native value when constant.
func (fr *frame) valueOfTerm(t *Term, typ types.Type) value {
	if !t.IsConst() {
		return t
	}
	return constToValue(t, typ)
}

func constToValue(t *Term, typ types.Type) value {
	b := basicOf(typ)
	if b == nil {
		panic(fmt.Sprintf("constToValue: non-basic %v", typ))
	}
	switch b.Kind() {
	case types.Bool, types.UntypedBool:
		return t.C != 0
	case types.Int:
		return int(t.C)
	case types.Int8:
		return int8(t.C)
	case types.Int16:
		return int16(t.C)
	case types.Int32, types.UntypedRune:
		return int32(t.C)
	case types.Int64:
		return int64(t.C)
	case types.Uint:
		return uint(t.C)
	case types.Uint8:
		return uint8(t.C)
	case types.Uint16:
		return uint16(t.C)
	case types.Uint32:
		return uint32(t.C)
	case types.Uint64:
		return uint64(t.C)
	case types.Uintptr:
		return uintptr(t.C)
	case types.Float64:
		return math.Float64frombits(t.C)
	}
	panic(fmt.Sprintf("constToValue: %v", typ))
}

func symIte(fr *frame, c value, a, b value, t types.Type) value {
	if cb, ok := c.(bool); ok {
		if cb {
			return a
		}
		return b
	}
	return fr.valueOfTerm(fr.tt().Ite(c.(*Term), fr.termOf(a), fr.termOf(b)), t)
}

func symUnop(fr *frame, op token.Token, t types.Type, x *Term) value {
	tt := fr.tt()
	switch op {
	case token.NOT:
		return fr.vBool(tt.Not(x))
	case token.SUB:
		if x.Sort.K == SFP64 {
			return fr.valueOfTerm(tt.Mk(OFNeg, sortFP64, 0, x), t)
		}
		return fr.valueOfTerm(tt.Mk(ONeg, x.Sort, 0, x), t)
	case token.XOR:
		return fr.valueOfTerm(tt.Mk(OBNot, x.Sort, 0, x), t)
	}
	panic(fmt.Sprintf("symUnop %s", op))
}

func symBinop(fr *frame, op token.Token, tx, ty types.Type, x, y value) value {
	tt := fr.tt()
	b := basicOf(tx)
	if b == nil {
		panic(fmt.Sprintf("symBinop on %v", tx))
	}
	if b.Info()&types.IsString != 0 {
		return symStrBinop(fr, op, x, y)
	}
	a := fr.termOf(x)
	switch {
	case b.Info()&types.IsBoolean != 0:
		c := fr.termOf(y)
		switch op {
		case token.AND, token.LAND:
			return fr.vBool(tt.And(a, c))
		case token.OR, token.LOR:
			return fr.vBool(tt.Or(a, c))
		}
	case b.Info()&types.IsFloat != 0:
		if a.Sort.K != SFP64 {
			panic(pathEnd{stUnsupported, "symbolic float32"})
		}
		c := fr.termOf(y)
		switch op {
		case token.ADD:
			return fr.valueOfTerm(tt.Mk(OFAdd, sortFP64, 0, a, c), tx)
		case token.SUB:
			return fr.valueOfTerm(tt.Mk(OFSub, sortFP64, 0, a, c), tx)
		case token.MUL:
			return fr.valueOfTerm(tt.Mk(OFMul, sortFP64, 0, a, c), tx)
		case token.QUO:
			return fr.valueOfTerm(tt.Mk(OFDiv, sortFP64, 0, a, c), tx)
		case token.LSS:
			return fr.vBool(tt.Mk(OFLt, sortBool, 0, a, c))
		case token.LEQ:
			return fr.vBool(tt.Mk(OFLe, sortBool, 0, a, c))
		case token.GTR:
			return fr.vBool(tt.Mk(OFLt, sortBool, 0, c, a))
		case token.GEQ:
			return fr.vBool(tt.Mk(OFLe, sortBool, 0, c, a))
		}
	case b.Info()&types.IsInteger != 0:
		signed := b.Info()&types.IsUnsigned == 0
		s := a.Sort
		if op == token.SHL || op == token.SHR {
			return symShift(fr, op, tx, ty, a, y, signed)
		}
		c := fr.termOf(y)
		if c.Sort != s {
			panic(fmt.Sprintf("symBinop: sort mismatch %v %v (%v %s %v)", s, c.Sort, tx, op, ty))
		}
		switch op {
		case token.ADD:
			return fr.valueOfTerm(tt.Mk(OAdd, s, 0, a, c), tx)
		case token.SUB:
			return fr.valueOfTerm(tt.Mk(OSub, s, 0, a, c), tx)
		case token.MUL:
			return fr.valueOfTerm(tt.Mk(OMul, s, 0, a, c), tx)
		case token.QUO, token.REM:
			isz := fr.vBool(tt.Eq(c, tt.BV(s.W, 0)))
			if fr.toBool(isz) {
				rtPanic(fr, "integer divide by zero")
			}
			var o Op
			switch {
			case op == token.QUO && signed:
				o = OSDiv
			case op == token.QUO:
				o = OUDiv
			case signed:
				o = OSRem
			default:
				o = OURem
			}
			return fr.valueOfTerm(tt.Mk(o, s, 0, a, c), tx)
		case token.AND:
			return fr.valueOfTerm(tt.Mk(OBAnd, s, 0, a, c), tx)
		case token.OR:
			return fr.valueOfTerm(tt.Mk(OBOr, s, 0, a, c), tx)
		case token.XOR:
			return fr.valueOfTerm(tt.Mk(OBXor, s, 0, a, c), tx)
		case token.AND_NOT:
			return fr.valueOfTerm(tt.Mk(OBAnd, s, 0, a, tt.Mk(OBNot, s, 0, c)), tx)
		case token.LSS, token.LEQ, token.GTR, token.GEQ:
			l, r := a, c
			if op == token.GTR || op == token.GEQ {
				l, r = c, a
			}
			var o Op
			strict := op == token.LSS || op == token.GTR
			switch {
			case signed && strict:
				o = OSlt
			case signed:
				o = OSle
			case strict:
				o = OUlt
			default:
				o = OUle
			}
			return fr.vBool(tt.Mk(o, sortBool, 0, l, r))
		}
	}
	panic(fmt.Sprintf("symBinop: unsupported %v %s %v", tx, op, ty))
}

func symShift(fr *frame, op token.Token, tx, ty types.Type, a *Term, y value, signed bool) value {
	tt := fr.tt()
	w := a.Sort.W
	ysigned := isSignedType(ty)
	yt := fr.termOf(y)
	if ysigned {
		neg := fr.vBool(tt.Mk(OSlt, sortBool, 0, yt, tt.BV(yt.Sort.W, 0)))
		if fr.toBool(neg) {
			rtPanic(fr, "negative shift amount")
		}
	}
	// normalise the count to width w, saturating at w
	var cnt *Term
	var big *Term // count >= w
	yw := yt.Sort.W
	if yw > w {
		big = tt.Mk(OUle, sortBool, 0, tt.BV(yw, uint64(w)), yt)
		cnt = tt.Extract(yt, w-1, 0)
	} else {
		cnt = tt.Mk(OZext, bvSort(w), 0, yt)
		big = tt.Mk(OUle, sortBool, 0, tt.BV(w, uint64(w)), cnt)
	}
	var r *Term
	switch {
	case op == token.SHL:
		r = tt.Ite(big, tt.BV(w, 0), tt.Mk(OShl, a.Sort, 0, a, cnt))
	case signed:
		r = tt.Ite(big, tt.Mk(OAShr, a.Sort, 0, a, tt.BV(w, uint64(w-1))), tt.Mk(OAShr, a.Sort, 0, a, cnt))
	default:
		r = tt.Ite(big, tt.BV(w, 0), tt.Mk(OLShr, a.Sort, 0, a, cnt))
	}
	return fr.valueOfTerm(r, tx)
}

// ---------------------------------------------------------------- strings

func symStrBinop(fr *frame, op token.Token, x, y value) value {
	_, xa := x.(absStr)
	_, ya := y.(absStr)
	if xa || ya {
		if op == token.ADD {
			return absConcat(fr, x, y)
		}
		panic(pathEnd{stUnsupported, "comparison of abstract string at " + fr.pos() + " in " + fr.fn.String()})
	}
	xb, yb := strBytes(x), strBytes(y)
	tt := fr.tt()
	switch op {
	case token.ADD:
		r := make([]value, 0, len(xb)+len(yb))
		r = append(r, xb...)
		r = append(r, yb...)
		return mkStr(r)
	case token.LSS, token.LEQ, token.GTR, token.GEQ:
		if op == token.GTR || op == token.GEQ {
			xb, yb = yb, xb
		}
		strict := op == token.LSS || op == token.GTR
		// lexicographic: build from the end
		n := len(xb)
		if len(yb) < n {
			n = len(yb)
		}
		var acc *Term
		switch {
		case len(xb) < len(yb):
			acc = tt.Bool(true)
		case len(xb) > len(yb):
			acc = tt.Bool(false)
		default:
			acc = tt.Bool(!strict)
		}
		for i := n - 1; i >= 0; i-- {
			a, b := fr.termOf(xb[i]), fr.termOf(yb[i])
			acc = tt.Ite(tt.Mk(OUlt, sortBool, 0, a, b), tt.Bool(true),
				tt.Ite(tt.Eq(a, b), acc, tt.Bool(false)))
		}
		return fr.vBool(acc)
	}
	panic(fmt.Sprintf("symStrBinop %s", op))
}

func symEquals(fr *frame, x, y value) value {
	tt := fr.tt()
	switch x.(type) {
	case string, sstr:
		switch y.(type) {
		case string, sstr:
			xb, yb := strBytes(x), strBytes(y)
			if len(xb) != len(yb) {
				return false
			}
			var cs []*Term
			for i := range xb {
				if xc, ok := xb[i].(uint8); ok {
					if yc, ok := yb[i].(uint8); ok {
						if xc != yc {
							return false
						}
						continue
					}
				}
				cs = append(cs, tt.Eq(fr.termOf(xb[i]), fr.termOf(yb[i])))
			}
			return fr.vBool(tt.And(cs...))
		}
		return absEq(fr, x, y)
	case absStr:
		return absEq(fr, x, y)
	}
	a, b := fr.termOf(x), fr.termOf(y)
	if a.Sort != b.Sort {
		panic(fmt.Sprintf("symEquals: sort mismatch %v %v", a.Sort, b.Sort))
	}
	if a.Sort.K == SFP64 {
		return fr.vBool(tt.Mk(OFEq, sortBool, 0, a, b))
	}
	return fr.vBool(tt.Eq(a, b))
}

// abstract strings ---------------------------------------------------------

func (fr *frame) lenTerm(v value) *Term {
	switch v := v.(type) {
	case absStr:
		return fr.termOf(v.n)
	}
	return fr.tt().BV(64, uint64(strLen(v)))
}

func absConcat(fr *frame, x, y value) value {
	tt := fr.tt()
	n := tt.Mk(OAdd, bvSort(64), 0, fr.lenTerm(x), fr.lenTerm(y))
	p := fr.i.p
	p.absCount++
	return absStr{n: fr.valueOfTerm(n, types.Typ[types.Int]), id: p.absCount}
}

func absEq(fr *frame, x, y value) value {
	// comparison with the empty string is decided by the length
	for _, pair := range [][2]value{{x, y}, {y, x}} {
		if s, ok := pair[1].(string); ok && s == "" {
			if a, ok := pair[0].(absStr); ok {
				return fr.vBool(fr.tt().Eq(fr.termOf(a.n), fr.tt().BV(64, 0)))
			}
		}
	}
	// equal abstract strings have equal lengths; beyond that unknown
	panic(pathEnd{stUnsupported, "comparison of abstract string at " + fr.pos() + " in " + fr.fn.String()})
}

func absSlice(fr *frame, x absStr, lo, hi value) value {
	if lo == nil && hi == nil {
		return x
	}
	panic(pathEnd{stUnsupported, "slicing of abstract string"})
}

// ---------------------------------------------------------------- symPtr

// leafAt navigates path within v.
func leafAt(v *value, path []int) *value {
	for _, f := range path {
		switch s := (*v).(type) {
		case structure:
			v = &s[f]
		case array:
			v = &s[f]
		default:
			checkBad(*v)
			panic(fmt.Sprintf("leafAt: %T", *v))
		}
	}
	return v
}

func symResolve(fr *frame, p symPtr) *value {
	k := fr.i.p.concretize(fr, p.idx)
	return leafAt(&p.base[k], p.path)
}

func symLoad(fr *frame, T types.Type, p symPtr) value {
	srt, ok := sortOfType(T)
	if !ok {
		return load(T, symResolve(fr, p))
	}
	tt := fr.tt()
	n := len(p.base)
	leaves := make([]*Term, n)
	for k := 0; k < n; k++ {
		lv := *leafAt(&p.base[k], p.path)
		if _, isBad := lv.(bad); isBad {
			return load(T, symResolve(fr, p))
		}
		leaves[k] = fr.termOf(lv)
		if leaves[k].Sort != srt {
			panic(fmt.Sprintf("symLoad sort mismatch %v vs %v", leaves[k].Sort, srt))
		}
	}
	// runs of identical leaves -> one comparison per run
	acc := leaves[n-1]
	k := n - 1
	for k > 0 && leaves[k-1] == acc {
		k--
	}
	// k is the start of the last run
	for k > 0 {
		end := k - 1 // run ends at end
		v := leaves[end]
		start := end
		for start > 0 && leaves[start-1] == v {
			start--
		}
		var c *Term
		if start == end && false {
			c = tt.Eq(p.idx, tt.BV(64, uint64(end)))
		} else {
			c = tt.Mk(OUle, sortBool, 0, p.idx, tt.BV(64, uint64(end)))
		}
		acc = tt.Ite(c, v, acc)
		k = start
	}
	return fr.valueOfTerm(acc, T)
}

func symStore(fr *frame, T types.Type, p symPtr, v value) {
	_, ok := sortOfType(T)
	if !ok || len(p.base) > 64 {
		store(T, symResolve(fr, p), v)
		return
	}
	tt := fr.tt()
	nv := fr.termOf(v)
	for k := range p.base {
		cell := leafAt(&p.base[k], p.path)
		old := fr.termOf(*cell)
		*cell = fr.valueOfTerm(tt.Ite(tt.Eq(p.idx, tt.BV(64, uint64(k))), nv, old), T)
	}
}

// ---------------------------------------------------------------- conversions

func symConv(fr *frame, t_dst, t_src types.Type, x value) (value, bool) {
	tt := fr.tt()
	ut_src := t_src.Underlying()
	ut_dst := t_dst.Underlying()
	switch src := ut_src.(type) {
	case *types.Slice:
		if _, ok := ut_dst.(*types.Basic); !ok {
			return nil, false
		}
		eb, ok := src.Elem().Underlying().(*types.Basic)
		if !ok {
			return nil, false
		}
		xs := x.([]value)
		switch eb.Kind() {
		case types.Byte:
			return mkStr(append([]value{}, xs...)), true
		case types.Rune:
			anySym := false
			for _, r := range xs {
				if isSym(r) {
					anySym = true
				}
			}
			if !anySym {
				return nil, false
			}
			var out []value
			for _, r := range xs {
				out = append(out, strBytes(runeToString(fr, r))...)
			}
			return mkStr(out), true
		}
		return nil, false
	case *types.Basic:
		dst, ok := ut_dst.(*types.Basic)
		if !ok {
			// string -> []byte / []rune
			if sl, ok := ut_dst.(*types.Slice); ok {
				switch s := x.(type) {
				case sstr:
					switch sl.Elem().Underlying().(*types.Basic).Kind() {
					case types.Byte:
						return append([]value{}, s.b...), true
					case types.Rune:
						var res []value
						it := &stringIter{fr: fr, s: s}
						for {
							t := it.next()
							if !t[0].(bool) {
								break
							}
							res = append(res, t[2])
						}
						return res, true
					}
				case absStr:
					panic(pathEnd{stUnsupported, "conversion of abstract string to slice"})
				}
			}
			return nil, false
		}
		if !isSym(x) {
			return nil, false
		}
		// string -> string
		if src.Info()&types.IsString != 0 && dst.Info()&types.IsString != 0 {
			return x, true
		}
		xt, isTerm := x.(*Term)
		if !isTerm {
			return nil, false
		}
		// integer -> string
		if src.Info()&types.IsInteger != 0 && dst.Kind() == types.String {
			r := x
			if xt.Sort.W != 32 || src.Info()&types.IsUnsigned != 0 {
				// convert to rune range: out-of-range values become U+FFFD
				r64 := fr.asIdxTerm(xt, t_src)
				inr := tt.Mk(OUlt, sortBool, 0, r64, tt.BV(64, 0x110000))
				r = tt.Ite(inr, tt.Extract(r64, 31, 0), tt.BV(32, 0xFFFD))
			}
			return runeToString(fr, r), true
		}
		switch {
		case src.Info()&types.IsInteger != 0 && dst.Info()&types.IsInteger != 0:
			dw := intWidth(dst.Kind())
			sw := xt.Sort.W
			var r *Term
			switch {
			case dw == sw:
				r = xt
			case dw < sw:
				r = tt.Extract(xt, dw-1, 0)
			case src.Info()&types.IsUnsigned != 0:
				r = tt.Mk(OZext, bvSort(dw), 0, xt)
			default:
				r = tt.Mk(OSext, bvSort(dw), 0, xt)
			}
			return fr.valueOfTerm(r, t_dst), true
		case src.Info()&types.IsInteger != 0 && dst.Kind() == types.Float64:
			op := OFFromS
			if src.Info()&types.IsUnsigned != 0 {
				op = OFFromU
			}
			return fr.valueOfTerm(tt.Mk(op, sortFP64, 0, xt), t_dst), true
		case src.Kind() == types.Float64 && dst.Kind() == types.Float64:
			return x, true
		case src.Kind() == types.Float64 && dst.Info()&types.IsInteger != 0:
			// amd64 semantics: CVTTSD2SQ yields MinInt64 for NaN / out of range.
			dw := intWidth(dst.Kind())
			lim := tt.FP(math.Ldexp(1, 63))
			nlim := tt.FP(-math.Ldexp(1, 63))
			conv64 := func(f *Term) *Term {
				inr := tt.And(tt.Mk(OFLt, sortBool, 0, f, lim), tt.Mk(OFLe, sortBool, 0, nlim, f))
				return tt.Ite(inr, tt.Mk(OFToS, bvSort(64), 0, f), tt.BV(64, 1<<63))
			}
			var r64 *Term
			if dst.Kind() == types.Uint64 || dst.Kind() == types.Uint || dst.Kind() == types.Uintptr {
				small := tt.Mk(OFLt, sortBool, 0, xt, lim)
				r64 = tt.Ite(small, conv64(xt),
					tt.Mk(OBXor, bvSort(64), 0, conv64(tt.Mk(OFSub, sortFP64, 0, xt, lim)), tt.BV(64, 1<<63)))
			} else {
				r64 = conv64(xt)
			}
			r := r64
			if dw < 64 {
				r = tt.Extract(r64, dw-1, 0)
			}
			return fr.valueOfTerm(r, t_dst), true
		}
		panic(pathEnd{stUnsupported, fmt.Sprintf("symbolic conversion %v -> %v", t_src, t_dst)})
	}
	return nil, false
}

// runeToString encodes a (possibly symbolic) rune by running the real
// utf8.AppendRune on it.
func runeToString(fr *frame, r value) value {
	if rc, ok := r.(int32); ok {
		return string(rune(rc))
	}
	fn := fr.i.lookupFunc("unicode/utf8", "AppendRune")
	res := callSSA(fr.i, fr, token.NoPos, fn, []value{[]value(nil), r}, nil)
	return mkStr(res.([]value))
}

// decodeRuneSym decodes the first rune of s by running the real
// utf8.DecodeRuneInString; the size is concretised.
func decodeRuneSym(fr *frame, s value) (value, int) {
	fn := fr.i.lookupFunc("unicode/utf8", "DecodeRuneInString")
	res := callSSA(fr.i, fr, token.NoPos, fn, []value{s}, nil).(tuple)
	return res[0], int(fr.toInt(res[1], nil))
}

func (i *interpreter) lookupFunc(pkg, name string) *ssa_Function {
	p := i.prog.ImportedPackage(pkg)
	if p == nil {
		panic(pathEnd{stUnsupported, "package not loaded: " + pkg})
	}
	f := p.Func(name)
	if f == nil {
		panic(pathEnd{stUnsupported, "function not found: " + pkg + "." + name})
	}
	return f
}

var _ = unsafe.Pointer(nil)
