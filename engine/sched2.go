package main

// Deterministic goroutine scheduler (§2.9 of DESIGN.md). Interpreted
// goroutines run on real Go goroutines, but only one at a time (baton
// passing); every scheduling decision is an explored choice.

import (
	"fmt"
	"go/token"
	"strings"
	"sync"

	"golang.org/x/tools/go/ssa"
)

type abortPanic struct{}

func newScheduler(i *interpreter, maxPreempt int) *scheduler {
	if maxPreempt < 0 {
		// one schedule only: run each goroutine until it blocks or ends, then
		// the lowest-numbered enabled one
		return &scheduler{i: i, maxPreempt: 0, single: true}
	}
	return &scheduler{i: i, maxPreempt: maxPreempt}
}

func (g *goroutine) enabled() bool { return !g.done && (g.cond == nil || g.cond()) }

func (s *scheduler) describeBlocked() string {
	var parts []string
	for _, g := range s.gs {
		if !g.done {
			parts = append(parts, fmt.Sprintf("g%d:%s", g.id, g.what))
		}
	}
	return strings.Join(parts, ", ")
}

// pick chooses the next goroutine to run among the enabled ones; cur (if
// enabled) is always alternative 0 so that "no switch" is the first explored.
func (s *scheduler) pick(fr *frame, allowCur bool) *goroutine {
	var cands []*goroutine
	if allowCur && s.cur.enabled() {
		cands = append(cands, s.cur)
	}
	if !(allowCur && s.cur.enabled() && s.preempts >= s.maxPreempt) {
		for _, g := range s.gs {
			if g != s.cur && g.enabled() {
				cands = append(cands, g)
			}
		}
	}
	if len(cands) == 0 {
		return nil
	}
	k := 0
	if len(cands) > 1 && !s.single {
		k = s.i.p.choose(fr, len(cands))
	}
	g := cands[k]
	if allowCur && s.cur.enabled() && g != s.cur {
		s.preempts++
	}
	return g
}

// switchTo hands the baton to g and waits until this goroutine is resumed.
func (s *scheduler) switchTo(me, g *goroutine) {
	if g == me {
		return
	}
	s.cur = g
	g.wake <- struct{}{}
	<-me.wake
	if s.killing {
		panic(abortPanic{})
	}
	if s.abort != nil && me.id == 0 {
		panic(*s.abort)
	}
}

func (s *scheduler) yield(fr *frame, what string) {
	if s.killing {
		panic(abortPanic{})
	}
	me := s.cur
	me.what = what
	g := s.pick(fr, true)
	if g == nil {
		return
	}
	s.switchTo(me, g)
}

func (s *scheduler) block(fr *frame, what string, cond func() bool) {
	me := s.cur
	for !cond() {
		if s.killing {
			panic(abortPanic{})
		}
		me.cond, me.what = cond, what
		g := s.pick(fr, false)
		if g == nil {
			me.cond = nil
			panic(pathEnd{stViolation, "deadlock: all goroutines are blocked (" + s.describeBlocked() + ")"})
		}
		s.switchTo(me, g)
		me.cond = nil
	}
	me.cond = nil
}

func (s *scheduler) spawn(fr *frame, fn value, args []value) {
	g := &goroutine{id: len(s.gs), wake: make(chan struct{}, 1), what: "start"}
	s.gs = append(s.gs, g)
	if len(s.gs) > 64 {
		panic(pathEnd{stUnsupported, "more than 64 goroutines"})
	}
	s.wg.Add(1)
	i := s.i
	go func() {
		defer s.wg.Done()
		<-g.wake
		if s.killing {
			g.done = true
			return
		}
		func() {
			defer func() {
				r := recover()
				g.done = true
				switch r := r.(type) {
				case nil, abortPanic, goexitPanic:
				case pathEnd:
					s.abortWith(r)
				case targetPanic:
					s.abortWith(pathEnd{stViolation, "panic in goroutine: " + toString(r.v)})
				default:
					s.abortWith(pathEnd{stUnsupported, "engine: " + panicText(r)})
				}
			}()
			call(i, nil, token.NoPos, fn, args)
		}()
		if s.killing {
			return
		}
		// goroutine finished: pass the baton on
		if s.abort != nil {
			s.cur = s.gs[0]
			s.gs[0].wake <- struct{}{}
			return
		}
		next := s.pickAfterExit()
		if next == nil {
			// nobody can run: if main is still alive it is deadlocked
			s.abort = &pathEnd{stViolation, "deadlock: all goroutines are blocked (" + s.describeBlocked() + ")"}
			s.cur = s.gs[0]
			s.gs[0].wake <- struct{}{}
			return
		}
		s.cur = next
		next.wake <- struct{}{}
	}()
	// the new goroutine is runnable: scheduling point
	s.yield(fr, "go")
}

func (s *scheduler) abortWith(pe pathEnd) {
	if s.abort == nil {
		p := pe
		s.abort = &p
	}
}

// pickAfterExit: like pick(false) but without a frame (decision recorded on the path).
func (s *scheduler) pickAfterExit() *goroutine {
	var cands []*goroutine
	for _, g := range s.gs {
		if g.enabled() {
			cands = append(cands, g)
		}
	}
	if len(cands) == 0 {
		return nil
	}
	k := 0
	if len(cands) > 1 && !s.single {
		func() {
			defer func() {
				if r := recover(); r != nil {
					if pe, ok := r.(pathEnd); ok {
						s.abortWith(pe)
					}
				}
			}()
			k = s.i.p.choose(&frame{i: s.i}, len(cands))
		}()
	}
	return cands[k]
}

func (s *scheduler) runMain(i *interpreter, fn *ssa.Function, args []value) {
	g0 := &goroutine{id: 0, wake: make(chan struct{}, 1), what: "main"}
	s.gs = []*goroutine{g0}
	s.cur = g0
	defer func() {
		// terminate all remaining goroutines before the path ends
		g0.done = true
		s.killing = true
		for _, g := range s.gs[1:] {
			if !g.done {
				select {
				case g.wake <- struct{}{}:
				default:
				}
			}
		}
		s.wg.Wait()
	}()
	callSSA(i, nil, token.NoPos, fn, args, nil)
	if s.abort != nil {
		panic(*s.abort)
	}
	// main returned: record goroutines that are still alive (leaks / blocked)
	alive := 0
	for _, g := range s.gs[1:] {
		if !g.done {
			alive++
		}
	}
	s.aliveAtExit = alive
}

var _ sync.Mutex

// othersEnabled reports whether any goroutine other than the running one can
// make progress.
func (s *scheduler) othersEnabled(me *goroutine) bool {
	for _, g := range s.gs {
		if g != me && g.enabled() {
			return true
		}
	}
	return false
}
