package main

// Solver: one long-lived SMT solver process per worker, SMT-LIB2 over pipes.

import (
	"bufio"
	"fmt"
	"io"
	"math/big"
	"os"
	"os/exec"
	"strings"
	"sync/atomic"
	"time"
)

type SatResult int

const (
	Unsat SatResult = iota
	Sat
	Unknown
)

func (r SatResult) String() string { return [...]string{"unsat", "sat", "unknown"}[r] }

type SolverStats struct {
	Queries   int
	Sat       int
	UnsatN    int
	UnknownN  int
	CacheHits int
	Seconds   float64
	Errors    int
	ModelSeconds float64
	Fallbacks int
	FallbackDecided int
}

type Solver struct {
	name    string
	cmd     *exec.Cmd
	in      io.WriteCloser
	out     *bufio.Reader
	tt      *TermTable
	timeout int // ms per query
	Stats   SolverStats
	log     io.Writer
	dead    bool
	quietErrors bool
}

func solverArgv(name string, timeoutMs int) []string {
	switch name {
	case "z3":
		return []string{"z3", "-in", fmt.Sprintf("-t:%d", timeoutMs)}
	case "z3-new":
		return []string{"z3-new", "-in", fmt.Sprintf("-t:%d", timeoutMs)}
	case "cvc5":
		return []string{"cvc5", "--incremental", "--lang=smt2", fmt.Sprintf("--tlimit-per=%d", timeoutMs), "--produce-models", "--fp-exp"}
	}
	panic("unknown solver " + name)
}

func NewSolver(name string, tt *TermTable, timeoutMs int) (*Solver, error) {
	s := &Solver{name: name, tt: tt, timeout: timeoutMs}
	if err := s.start(); err != nil {
		return nil, err
	}
	return s, nil
}

func (s *Solver) start() error {
	argv := solverArgv(s.name, s.timeout)
	s.cmd = exec.Command(argv[0], argv[1:]...)
	in, err := s.cmd.StdinPipe()
	if err != nil {
		return err
	}
	out, err := s.cmd.StdoutPipe()
	if err != nil {
		return err
	}
	s.cmd.Stderr = os.Stderr
	if err := s.cmd.Start(); err != nil {
		return err
	}
	s.in = in
	s.out = bufio.NewReaderSize(out, 1<<16)
	s.dead = false
	if s.name == "cvc5" {
		s.send("(set-logic ALL)")
	}
	return nil
}

func (s *Solver) Close() {
	if s.cmd != nil && s.cmd.Process != nil {
		s.in.Close()
		s.cmd.Process.Kill()
		s.cmd.Wait()
	}
}

func (s *Solver) restart() {
	s.Close()
	s.start()
}

var slowDir = os.Getenv("VERIF_SLOWQ")
var slowN int32

func (s *Solver) send(line string) {
	if s.log != nil {
		fmt.Fprintln(s.log, line)
	}
	if _, err := io.WriteString(s.in, line+"\n"); err != nil {
		s.dead = true
	}
}

func (s *Solver) readLine() string {
	l, err := s.out.ReadString('\n')
	if err != nil {
		s.dead = true
		return "(error \"solver died\")"
	}
	return strings.TrimSpace(l)
}

// readSexp reads a full balanced s-expression (possibly multi-line).
func (s *Solver) readSexp() string {
	var sb strings.Builder
	depth := 0
	started := false
	for {
		l := s.readLine()
		sb.WriteString(l)
		sb.WriteByte(' ')
		inBar := false
		for _, ch := range l {
			switch {
			case ch == '|':
				inBar = !inBar
			case inBar:
			case ch == '(':
				depth++
				started = true
			case ch == ')':
				depth--
			}
		}
		if s.dead || (depth <= 0 && (started || l != "")) {
			break
		}
	}
	return sb.String()
}

// Query decides the conjunction of asserts (plus raw SMT-LIB assertions) in a
// fresh solver context: z3's non-incremental (tactic) mode decides the
// multiplier-heavy queries an order of magnitude faster than push/pop mode
// (measured), so every query is self-contained: (reset), declarations and
// definitions of the cone of influence, assertions, (check-sat).
func (s *Solver) Query(asserts []*Term, raw []string, vars []*Term) (SatResult, Model) {
	var sb strings.Builder
	sb.WriteString("(reset)\n(set-option :produce-models true)\n")
	declared := map[string]bool{}
	defined := map[int]bool{}
	declare := func(v *Term) {
		if !declared[v.Name] {
			declared[v.Name] = true
			fmt.Fprintf(&sb, "(declare-const %s %s)\n", smtName(v.Name), v.Sort)
		}
	}
	nameOf := func(a *Term) string {
		switch a.Op {
		case OConst:
			return constSMT(a)
		case OVar:
			return smtName(a.Name)
		}
		return fmt.Sprintf("t%d", a.id)
	}
	type item struct {
		t    *Term
		done bool
	}
	emit := func(t *Term) {
		stack := []item{{t, false}}
		for len(stack) > 0 {
			it := stack[len(stack)-1]
			stack = stack[:len(stack)-1]
			x := it.t
			if x.Op == OConst || defined[x.id] {
				continue
			}
			if x.Op == OVar {
				declare(x)
				continue
			}
			if !it.done {
				stack = append(stack, item{x, true})
				for _, a := range x.A {
					stack = append(stack, item{a, false})
				}
				continue
			}
			if x.Op == OUF && !declared["uf:"+x.Name] {
				declared["uf:"+x.Name] = true
				var as []string
				for _, a := range x.A {
					as = append(as, a.Sort.String())
				}
				fmt.Fprintf(&sb, "(declare-fun %s (%s) %s)\n", smtName(x.Name), strings.Join(as, " "), x.Sort)
			}
			// declare + definitional equality rather than define-fun: z3 expands
			// define-fun macros into trees, losing the DAG sharing (measured 50x)
			fmt.Fprintf(&sb, "(declare-const t%d %s)\n(assert (= t%d %s))\n", x.id, x.Sort, x.id, smtNode(x, nameOf))
			defined[x.id] = true
		}
	}
	if len(raw) > 0 {
		for _, v := range vars {
			declare(v)
		}
	}
	for _, a := range asserts {
		emit(a)
		fmt.Fprintf(&sb, "(assert %s)\n", nameOf(a))
	}
	for _, r := range raw {
		fmt.Fprintf(&sb, "(assert %s)\n", r)
	}
	t0 := time.Now()
	sb.WriteString("(check-sat)")
	text := sb.String()
	s.send(text)
	wd := time.AfterFunc(time.Duration(s.timeout)*time.Millisecond+3*time.Second, func() {
		if s.cmd != nil && s.cmd.Process != nil {
			s.cmd.Process.Kill()
		}
	})
	res := s.readResult()
	wd.Stop()
	dt := time.Since(t0)
	if slowDir != "" && dt > 3*time.Second {
		n := atomic.AddInt32(&slowN, 1)
		os.WriteFile(fmt.Sprintf("%s/slow-%d-%s-%.0fs.smt2", slowDir, n, res, dt.Seconds()), []byte(text+"\n"), 0o644)
	}
	s.Stats.Queries++
	s.Stats.Seconds += dt.Seconds()
	switch res {
	case Sat:
		s.Stats.Sat++
	case Unsat:
		s.Stats.UnsatN++
	default:
		s.Stats.UnknownN++
	}
	var m Model
	var vs []*Term
	for _, v := range vars {
		if declared[v.Name] {
			vs = append(vs, v)
		}
	}
	if res == Sat {
		m = s.getModel(vs)
	}
	if s.dead {
		s.restart()
		res = Unknown
	}
	if res == Unknown && s.name != "cvc5" && !noFallback {
		// portfolio: ask cvc5 (one-shot process) before giving up
		r2, m2 := fallbackCVC5(text, vs, s.timeout)
		s.Stats.Fallbacks++
		if r2 != Unknown {
			s.Stats.UnknownN--
			s.Stats.FallbackDecided++
			return r2, m2
		}
	}
	return res, m
}

// ---------------------------------------------------------------- incremental session
//
// A second solver process per worker is used in push/pop mode with a short
// soft timeout: cheap branch-feasibility queries cost ~1 ms there because the
// path condition is asserted (and bit-blasted) once per path; anything it
// cannot decide quickly goes to the one-shot Query above.

type IncSession struct {
	s        *Solver
	level    int
	defined  map[int]bool
	declared map[string]bool
	flushed  int
	Hits     int
	Misses   int
}

func NewIncSession(tt *TermTable, softMs int) (*IncSession, error) {
	s, err := NewSolver("z3", tt, softMs)
	if err != nil {
		return nil, err
	}
	s.quietErrors = true
	return &IncSession{s: s, defined: map[int]bool{}, declared: map[string]bool{}}, nil
}

// Begin starts a fresh path scope.
func (x *IncSession) Begin() {
	if x.s.dead {
		x.s.restart()
		x.level = 0
	}
	if x.level > 0 {
		x.s.send(fmt.Sprintf("(pop %d)", x.level))
	}
	x.s.send("(push 1)")
	x.level = 1
	x.defined = map[int]bool{}
	x.declared = map[string]bool{}
	x.flushed = 0
}

func (x *IncSession) emit(sb *strings.Builder, t *Term) string {
	nameOf := func(a *Term) string {
		switch a.Op {
		case OConst:
			return constSMT(a)
		case OVar:
			return smtName(a.Name)
		}
		return fmt.Sprintf("t%d", a.id)
	}
	type item struct {
		t    *Term
		done bool
	}
	stack := []item{{t, false}}
	for len(stack) > 0 {
		it := stack[len(stack)-1]
		stack = stack[:len(stack)-1]
		y := it.t
		if y.Op == OConst || x.defined[y.id] {
			continue
		}
		if y.Op == OVar {
			if !x.declared[y.Name] {
				x.declared[y.Name] = true
				fmt.Fprintf(sb, "(declare-const %s %s)\n", smtName(y.Name), y.Sort)
			}
			continue
		}
		if !it.done {
			stack = append(stack, item{y, true})
			for _, a := range y.A {
				stack = append(stack, item{a, false})
			}
			continue
		}
		if y.Op == OUF && !x.declared["uf:"+y.Name] {
			x.declared["uf:"+y.Name] = true
			var as []string
			for _, a := range y.A {
				as = append(as, a.Sort.String())
			}
			fmt.Fprintf(sb, "(declare-fun %s (%s) %s)\n", smtName(y.Name), strings.Join(as, " "), y.Sort)
		}
		fmt.Fprintf(sb, "(declare-const t%d %s)\n(assert (= t%d %s))\n", y.id, y.Sort, y.id, smtNode(y, nameOf))
		x.defined[y.id] = true
	}
	return nameOf(t)
}

// Check decides pc ∧ c quickly or answers Unknown.
func (x *IncSession) Check(pc []*Term, c *Term, vars []*Term) (SatResult, Model) {
	s := x.s
	if s.dead {
		x.Begin()
	}
	if x.flushed > len(pc) {
		x.Begin()
	}
	var sb strings.Builder
	for ; x.flushed < len(pc); x.flushed++ {
		n := x.emit(&sb, pc[x.flushed])
		fmt.Fprintf(&sb, "(assert %s)\n", n)
	}
	if c != nil {
		n := x.emit(&sb, c)
		fmt.Fprintf(&sb, "(push 1)\n(assert %s)\n", n)
	}
	sb.WriteString("(check-sat)")
	s.send(sb.String())
	wd := time.AfterFunc(time.Duration(s.timeout)*time.Millisecond+2*time.Second, func() {
		if s.cmd != nil && s.cmd.Process != nil {
			s.cmd.Process.Kill()
		}
	})
	t0 := time.Now()
	res := s.readResult()
	wd.Stop()
	s.Stats.Seconds += time.Since(t0).Seconds()
	var m Model
	if res == Sat {
		var vs []*Term
		for _, v := range vars {
			if x.declared[v.Name] {
				vs = append(vs, v)
			}
		}
		t1 := time.Now()
		m = s.getModel(vs)
		s.Stats.ModelSeconds += time.Since(t1).Seconds()
	}
	if c != nil && !s.dead {
		s.send("(pop 1)")
	}
	if s.dead {
		res = Unknown
	}
	if res == Unknown {
		x.Misses++
	} else {
		x.Hits++
	}
	return res, m
}

var noFallback = os.Getenv("VERIF_NO_FALLBACK") != ""

func fallbackCVC5(text string, vs []*Term, timeoutMs int) (SatResult, Model) {
	body := strings.TrimPrefix(text, "(reset)\n(set-option :produce-models true)\n")
	var sb strings.Builder
	sb.WriteString("(set-logic ALL)\n")
	sb.WriteString(body)
	sb.WriteString("\n")
	if len(vs) > 0 {
		names := make([]string, len(vs))
		for i, v := range vs {
			names[i] = smtName(v.Name)
		}
		fmt.Fprintf(&sb, "(get-value (%s))\n", strings.Join(names, " "))
	}
	cmd := exec.Command("cvc5", "--lang=smt2", "--produce-models", "--fp-exp", fmt.Sprintf("--tlimit=%d", timeoutMs))
	cmd.Stdin = strings.NewReader(sb.String())
	out, _ := cmd.Output()
	lines := strings.SplitN(string(out), "\n", 2)
	switch strings.TrimSpace(lines[0]) {
	case "unsat":
		return Unsat, nil
	case "sat":
		m := Model{}
		if len(lines) > 1 && len(vs) > 0 {
			toks := tokenize(lines[1])
			pos := 0
			if pos < len(toks) && toks[pos] == "(" {
				pos++
				for i := 0; pos < len(toks) && toks[pos] == "(" && i < len(vs); i++ {
					pos += 2
					val, np := parseValue(toks, pos, vs[i].Sort)
					pos = np
					if pos < len(toks) && toks[pos] == ")" {
						pos++
					}
					m[vs[i].Name] = val
				}
			}
		}
		return Sat, m
	}
	return Unknown, nil
}

func (s *Solver) readResult() SatResult {
	for {
		l := s.readLine()
		switch {
		case l == "sat":
			return Sat
		case l == "unsat":
			return Unsat
		case l == "unknown" || l == "timeout":
			return Unknown
		case strings.HasPrefix(l, "(error"):
			if strings.Contains(l, "solver died") {
				// killed by the watchdog (query over time): inconclusive, not malformed
				s.dead = true
				return Unknown
			}
			s.Stats.Errors++
			if !s.quietErrors {
				fmt.Fprintf(os.Stderr, "solver %s: %s\n", s.name, l)
			}
			// an error makes the answer inconclusive and the stream position
			// uncertain: give up on this process
			if s.cmd != nil && s.cmd.Process != nil {
				s.cmd.Process.Kill()
			}
			s.dead = true
			return Unknown
		case l == "":
			if s.dead {
				return Unknown
			}
		default:
			if strings.HasPrefix(l, "(") || s.dead {
				return Unknown
			}
		}
	}
}

// getModel fetches values for the given (declared) variables.
func (s *Solver) getModel(vs []*Term) Model {
	m := Model{}
	if len(vs) == 0 {
		return m
	}
	names := make([]string, len(vs))
	for i, v := range vs {
		names[i] = smtName(v.Name)
	}
	s.send(fmt.Sprintf("(get-value (%s))", strings.Join(names, " ")))
	resp := s.readSexp()
	toks := tokenize(resp)
	pos := 0
	expect := func(tk string) bool {
		if pos < len(toks) && toks[pos] == tk {
			pos++
			return true
		}
		return false
	}
	if !expect("(") {
		return m
	}
	for i := 0; pos < len(toks) && toks[pos] == "(" && i < len(vs); i++ {
		pos++
		pos++ // name
		val, np := parseValue(toks, pos, vs[i].Sort)
		pos = np
		expect(")")
		m[vs[i].Name] = val
	}
	return m
}

func tokenize(s string) []string {
	var toks []string
	i := 0
	for i < len(s) {
		c := s[i]
		switch {
		case c == ' ' || c == '\t' || c == '\n' || c == '\r':
			i++
		case c == '(' || c == ')':
			toks = append(toks, string(c))
			i++
		case c == '|':
			j := strings.IndexByte(s[i+1:], '|')
			if j < 0 {
				j = len(s) - i - 1
			}
			toks = append(toks, s[i:i+j+2])
			i += j + 2
		default:
			j := i
			for j < len(s) && !strings.ContainsRune(" \t\n\r()", rune(s[j])) {
				j++
			}
			toks = append(toks, s[i:j])
			i = j
		}
	}
	return toks
}

func skipSexp(toks []string, pos int) int {
	if pos >= len(toks) {
		return pos
	}
	if toks[pos] != "(" {
		return pos + 1
	}
	d := 0
	for pos < len(toks) {
		if toks[pos] == "(" {
			d++
		} else if toks[pos] == ")" {
			d--
			if d == 0 {
				return pos + 1
			}
		}
		pos++
	}
	return pos
}

func parseValue(toks []string, pos int, sort Sort) (cval, int) {
	if pos >= len(toks) {
		return cval{}, pos
	}
	tk := toks[pos]
	end := skipSexp(toks, pos)
	switch sort.K {
	case SBool:
		return cval{u: b2u(tk == "true")}, end
	case SBV:
		b := new(big.Int)
		if strings.HasPrefix(tk, "#x") {
			b.SetString(tk[2:], 16)
		} else if strings.HasPrefix(tk, "#b") {
			b.SetString(tk[2:], 2)
		} else if tk == "(" && pos+2 < len(toks) && toks[pos+1] == "_" && strings.HasPrefix(toks[pos+2], "bv") {
			b.SetString(toks[pos+2][2:], 10)
		}
		return mkv(sort.W, b), end
	case SInt:
		b := new(big.Int)
		if tk == "(" && pos+2 < len(toks) && toks[pos+1] == "-" {
			b.SetString(toks[pos+2], 10)
			b.Neg(b)
		} else {
			b.SetString(tk, 10)
		}
		return cval{big: b}, end
	case SReal:
		r := parseReal(toks[pos:end])
		return cval{rat: r}, end
	}
	return cval{}, end
}

func parseReal(toks []string) *big.Rat {
	if len(toks) == 0 {
		return new(big.Rat)
	}
	if toks[0] != "(" {
		r, ok := new(big.Rat).SetString(toks[0])
		if !ok {
			return new(big.Rat)
		}
		return r
	}
	// (op a b) or (- a)
	op := toks[1]
	var args []*big.Rat
	i := 2
	for i < len(toks)-1 {
		e := skipSexp(toks, i)
		args = append(args, parseReal(toks[i:e]))
		i = e
	}
	switch {
	case op == "-" && len(args) == 1:
		return new(big.Rat).Neg(args[0])
	case op == "/" && len(args) == 2 && args[1].Sign() != 0:
		return new(big.Rat).Quo(args[0], args[1])
	case op == "-" && len(args) == 2:
		return new(big.Rat).Sub(args[0], args[1])
	}
	return new(big.Rat)
}
