package main

// Solver: one long-lived SMT solver process per worker, SMT-LIB2 over pipes.

import (
	"bufio"
	"fmt"
	"io"
	"math/big"
	"os"
	"os/exec"
	"strings"
	"time"
)

type SatResult int

const (
	Unsat SatResult = iota
	Sat
	Unknown
)

func (r SatResult) String() string { return [...]string{"unsat", "sat", "unknown"}[r] }

type SolverStats struct {
	Queries   int
	Sat       int
	UnsatN    int
	UnknownN  int
	CacheHits int
	Seconds   float64
	Errors    int
}

type Solver struct {
	name    string
	cmd     *exec.Cmd
	in      io.WriteCloser
	out     *bufio.Reader
	tt      *TermTable
	levels  []map[int]bool // defined term ids per push level
	declV   []map[string]bool
	timeout int // ms per query
	Stats   SolverStats
	log     io.Writer
	dead    bool
	pendingPop bool
}

func solverArgv(name string, timeoutMs int) []string {
	switch name {
	case "z3":
		return []string{"z3", "-in", fmt.Sprintf("-t:%d", timeoutMs)}
	case "z3-new":
		return []string{"z3-new", "-in", fmt.Sprintf("-t:%d", timeoutMs)}
	case "cvc5":
		return []string{"cvc5", "--incremental", "--lang=smt2", fmt.Sprintf("--tlimit-per=%d", timeoutMs), "--produce-models", "--fp-exp"}
	}
	panic("unknown solver " + name)
}

func NewSolver(name string, tt *TermTable, timeoutMs int) (*Solver, error) {
	s := &Solver{name: name, tt: tt, timeout: timeoutMs}
	if err := s.start(); err != nil {
		return nil, err
	}
	return s, nil
}

func (s *Solver) start() error {
	argv := solverArgv(s.name, s.timeout)
	s.cmd = exec.Command(argv[0], argv[1:]...)
	in, err := s.cmd.StdinPipe()
	if err != nil {
		return err
	}
	out, err := s.cmd.StdoutPipe()
	if err != nil {
		return err
	}
	s.cmd.Stderr = os.Stderr
	if err := s.cmd.Start(); err != nil {
		return err
	}
	s.in = in
	s.out = bufio.NewReaderSize(out, 1<<16)
	s.levels = []map[int]bool{{}}
	s.declV = []map[string]bool{{}}
	s.dead = false
	if s.name == "cvc5" {
		s.send("(set-logic ALL)")
	}
	s.send("(set-option :produce-models true)")
	return nil
}

func (s *Solver) Close() {
	if s.cmd != nil && s.cmd.Process != nil {
		s.in.Close()
		s.cmd.Process.Kill()
		s.cmd.Wait()
	}
}

func (s *Solver) restart() {
	s.Close()
	s.start()
}

func (s *Solver) send(line string) {
	if s.log != nil {
		fmt.Fprintln(s.log, line)
	}
	if _, err := io.WriteString(s.in, line+"\n"); err != nil {
		s.dead = true
	}
}

func (s *Solver) readLine() string {
	l, err := s.out.ReadString('\n')
	if err != nil {
		s.dead = true
		return "(error \"solver died\")"
	}
	return strings.TrimSpace(l)
}

// readSexp reads a full balanced s-expression (possibly multi-line).
func (s *Solver) readSexp() string {
	var sb strings.Builder
	depth := 0
	started := false
	for {
		l := s.readLine()
		sb.WriteString(l)
		sb.WriteByte(' ')
		inBar := false
		for _, ch := range l {
			switch {
			case ch == '|':
				inBar = !inBar
			case inBar:
			case ch == '(':
				depth++
				started = true
			case ch == ')':
				depth--
			}
		}
		if s.dead || (depth <= 0 && (started || l != "")) {
			break
		}
	}
	return sb.String()
}

func (s *Solver) Push() {
	s.send("(push 1)")
	s.levels = append(s.levels, map[int]bool{})
	s.declV = append(s.declV, map[string]bool{})
}

func (s *Solver) Pop() {
	s.send("(pop 1)")
	s.levels = s.levels[:len(s.levels)-1]
	s.declV = s.declV[:len(s.declV)-1]
}

func (s *Solver) Depth() int { return len(s.levels) - 1 }

func (s *Solver) isDefined(id int) bool {
	for _, l := range s.levels {
		if l[id] {
			return true
		}
	}
	return false
}

func (s *Solver) isDeclared(n string) bool {
	for _, l := range s.declV {
		if l[n] {
			return true
		}
	}
	return false
}

// ref returns the SMT text naming term t, emitting declarations/definitions
// as needed at the current level.
func (s *Solver) ref(t *Term) string {
	switch t.Op {
	case OConst:
		return constSMT(t)
	case OVar:
		if !s.isDeclared(t.Name) {
			s.send(fmt.Sprintf("(declare-const %s %s)", smtName(t.Name), t.Sort))
			s.declV[len(s.declV)-1][t.Name] = true
		}
		return smtName(t.Name)
	}
	name := fmt.Sprintf("t%d", t.id)
	if s.isDefined(t.id) {
		return name
	}
	// iterative post-order to avoid deep recursion
	type item struct {
		t    *Term
		done bool
	}
	stack := []item{{t, false}}
	for len(stack) > 0 {
		it := stack[len(stack)-1]
		stack = stack[:len(stack)-1]
		x := it.t
		if x.Op == OConst || s.isDefined(x.id) {
			continue
		}
		if x.Op == OVar {
			s.ref(x)
			continue
		}
		if !it.done {
			stack = append(stack, item{x, true})
			for _, a := range x.A {
				stack = append(stack, item{a, false})
			}
			continue
		}
		if x.Op == OUF && !s.isDeclared("uf:"+x.Name) {
			var as []string
			for _, a := range x.A {
				as = append(as, a.Sort.String())
			}
			s.send(fmt.Sprintf("(declare-fun %s (%s) %s)", smtName(x.Name), strings.Join(as, " "), x.Sort))
			s.declV[len(s.declV)-1]["uf:"+x.Name] = true
		}
		body := smtNode(x, func(a *Term) string {
			switch a.Op {
			case OConst:
				return constSMT(a)
			case OVar:
				return smtName(a.Name)
			}
			return fmt.Sprintf("t%d", a.id)
		})
		s.send(fmt.Sprintf("(define-fun t%d () %s %s)", x.id, x.Sort, body))
		s.levels[len(s.levels)-1][x.id] = true
	}
	return name
}

func (s *Solver) Assert(t *Term) {
	r := s.ref(t)
	s.send(fmt.Sprintf("(assert %s)", r))
}

// Check runs check-sat under the current assertions plus extra (scoped).
func (s *Solver) Check(extra ...*Term) SatResult {
	refs := make([]string, len(extra))
	for i, e := range extra {
		refs[i] = s.ref(e)
	}
	if len(extra) > 0 {
		s.send("(push 1)")
		for _, r := range refs {
			s.send(fmt.Sprintf("(assert %s)", r))
		}
	}
	t0 := time.Now()
	s.send("(check-sat)")
	res := s.readResult()
	s.Stats.Queries++
	s.Stats.Seconds += time.Since(t0).Seconds()
	switch res {
	case Sat:
		s.Stats.Sat++
	case Unsat:
		s.Stats.UnsatN++
	default:
		s.Stats.UnknownN++
	}
	if len(extra) > 0 {
		// caller may want a model: keep the scope until EndCheck
		s.pendingPop = true
	}
	return res
}

func (s *Solver) readResult() SatResult {
	for {
		l := s.readLine()
		switch {
		case l == "sat":
			return Sat
		case l == "unsat":
			return Unsat
		case l == "unknown" || l == "timeout":
			return Unknown
		case strings.HasPrefix(l, "(error"):
			s.Stats.Errors++
			fmt.Fprintf(os.Stderr, "solver %s: %s\n", s.name, l)
			if s.dead {
				return Unknown
			}
			// an error makes the answer inconclusive; drain until the result line
			continue
		case l == "":
			if s.dead {
				return Unknown
			}
		default:
			if strings.HasPrefix(l, "(") || s.dead {
				return Unknown
			}
		}
	}
}

// EndCheck pops the scope opened by Check(extra...).
func (s *Solver) EndCheck() {
	if s.pendingPop {
		s.send("(pop 1)")
		s.pendingPop = false
	}
}

// GetModel fetches values for the given variables (after a Sat Check, before EndCheck).
func (s *Solver) GetModel(vars []*Term) Model {
	m := Model{}
	if len(vars) == 0 {
		return m
	}
	// only ask for declared variables
	var names []string
	var vs []*Term
	for _, v := range vars {
		if s.isDeclared(v.Name) {
			names = append(names, smtName(v.Name))
			vs = append(vs, v)
		}
	}
	if len(vs) == 0 {
		return m
	}
	s.send(fmt.Sprintf("(get-value (%s))", strings.Join(names, " ")))
	resp := s.readSexp()
	toks := tokenize(resp)
	// ( ( name value ) ( name value ) ... )
	pos := 0
	expect := func(tk string) bool {
		if pos < len(toks) && toks[pos] == tk {
			pos++
			return true
		}
		return false
	}
	if !expect("(") {
		return m
	}
	for i := 0; pos < len(toks) && toks[pos] == "(" && i < len(vs); i++ {
		pos++
		pos++ // name
		val, np := parseValue(toks, pos, vs[i].Sort)
		pos = np
		expect(")")
		m[vs[i].Name] = val
	}
	return m
}

func tokenize(s string) []string {
	var toks []string
	i := 0
	for i < len(s) {
		c := s[i]
		switch {
		case c == ' ' || c == '\t' || c == '\n' || c == '\r':
			i++
		case c == '(' || c == ')':
			toks = append(toks, string(c))
			i++
		case c == '|':
			j := strings.IndexByte(s[i+1:], '|')
			if j < 0 {
				j = len(s) - i - 1
			}
			toks = append(toks, s[i:i+j+2])
			i += j + 2
		default:
			j := i
			for j < len(s) && !strings.ContainsRune(" \t\n\r()", rune(s[j])) {
				j++
			}
			toks = append(toks, s[i:j])
			i = j
		}
	}
	return toks
}

func skipSexp(toks []string, pos int) int {
	if pos >= len(toks) {
		return pos
	}
	if toks[pos] != "(" {
		return pos + 1
	}
	d := 0
	for pos < len(toks) {
		if toks[pos] == "(" {
			d++
		} else if toks[pos] == ")" {
			d--
			if d == 0 {
				return pos + 1
			}
		}
		pos++
	}
	return pos
}

func parseValue(toks []string, pos int, sort Sort) (cval, int) {
	if pos >= len(toks) {
		return cval{}, pos
	}
	tk := toks[pos]
	end := skipSexp(toks, pos)
	switch sort.K {
	case SBool:
		return cval{u: b2u(tk == "true")}, end
	case SBV:
		b := new(big.Int)
		if strings.HasPrefix(tk, "#x") {
			b.SetString(tk[2:], 16)
		} else if strings.HasPrefix(tk, "#b") {
			b.SetString(tk[2:], 2)
		} else if tk == "(" && pos+2 < len(toks) && toks[pos+1] == "_" && strings.HasPrefix(toks[pos+2], "bv") {
			b.SetString(toks[pos+2][2:], 10)
		}
		return mkv(sort.W, b), end
	case SInt:
		b := new(big.Int)
		if tk == "(" && pos+2 < len(toks) && toks[pos+1] == "-" {
			b.SetString(toks[pos+2], 10)
			b.Neg(b)
		} else {
			b.SetString(tk, 10)
		}
		return cval{big: b}, end
	case SReal:
		r := parseReal(toks[pos:end])
		return cval{rat: r}, end
	}
	return cval{}, end
}

func parseReal(toks []string) *big.Rat {
	if len(toks) == 0 {
		return new(big.Rat)
	}
	if toks[0] != "(" {
		r, ok := new(big.Rat).SetString(toks[0])
		if !ok {
			return new(big.Rat)
		}
		return r
	}
	// (op a b) or (- a)
	op := toks[1]
	var args []*big.Rat
	i := 2
	for i < len(toks)-1 {
		e := skipSexp(toks, i)
		args = append(args, parseReal(toks[i:e]))
		i = e
	}
	switch {
	case op == "-" && len(args) == 1:
		return new(big.Rat).Neg(args[0])
	case op == "/" && len(args) == 2 && args[1].Sign() != 0:
		return new(big.Rat).Quo(args[0], args[1])
	case op == "-" && len(args) == 2:
		return new(big.Rat).Sub(args[0], args[1])
	}
	return new(big.Rat)
}
