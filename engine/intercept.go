package main

// Intercepts: nondet runtime (vrt), shims for body-less std functions, exact
// table models, contract stubs. Every intercept that fires is recorded and
// listed in evidence.

import (
	"path/filepath"
	"os"
	"fmt"
	"go/types"
	"math"
	mbits "math/bits"
	"strconv"
	"strings"
	"unicode"

	"golang.org/x/tools/go/ssa"
)

const vrtPath = "src.elv.sh/pkg/zzvrt"

type nativeFn struct {
	name string
	f    func(fr *frame, args []value) value
}

var externals map[string]externalFn

func buildExternals() {
	for name := range uniPreds {
		stdExternals[name] = uniPredExt(name)
	}
	for k, v := range syncExternals {
		stdExternals[k] = v
	}
	for k, v := range fmtExternals {
		stdExternals[k] = v
	}
	externals = map[string]externalFn{}
	for k, v := range reflectExternals {
		externals[k] = v
	}
	for k, v := range vrtExternals {
		externals[vrtPath+"."+k] = v
	}
	for k, v := range stdExternals {
		externals[k] = v
	}
}

// redirects: body-less (assembly) functions -> their pure Go twins in the
// same package, executed from SSA.
var redirects = map[string][2]string{
	"math/big.addVV":     {"math/big", "addVV_g"},
	"math/big.subVV":     {"math/big", "subVV_g"},
	"math/big.addVW":     {"math/big", "addVW_g"},
	"math/big.subVW":     {"math/big", "subVW_g"},
	"math/big.shlVU":     {"math/big", "shlVU_g"},
	"math/big.shrVU":     {"math/big", "shrVU_g"},
	"math/big.mulAddVWW": {"math/big", "mulAddVWW_g"},
	"math/big.addMulVVW": {"math/big", "addMulVVW_g"},
}

func lookupExternal(i *interpreter, fn *ssa.Function, name string) externalFn {
	if rd, ok := redirects[name]; ok {
		target := i.lookupFunc(rd[0], rd[1])
		i.noteIntercept("redirect:" + name + "->" + rd[1])
		return func(fr *frame, args []value) value {
			return callSSA(fr.i, fr.caller, 0, target, args, nil)
		}
	}
	if ext := externals[name]; ext != nil {
		if i.p != nil && i.p.c != nil {
			for _, u := range i.p.c.H.Unstub {
				if u == name {
					return nil
				}
			}
		}
		i.noteIntercept(name)
		return ext
	}
	if i.p != nil && i.p.c != nil {
		if ext := i.p.c.H.stubs[name]; ext != nil {
			i.noteIntercept("stub:" + name)
			return ext
		}
	}
	return nil
}

func (i *interpreter) noteIntercept(name string) {
	if i.intercepts == nil {
		i.intercepts = map[string]int{}
	}
	i.intercepts[name]++
}

func argStr(v value) string {
	if s, ok := v.(string); ok {
		return s
	}
	return "?"
}

func needPath(fr *frame) *Path {
	if fr.i.p == nil {
		panic(pathEnd{stUnsupported, "nondet outside a path"})
	}
	return fr.i.p
}

func nondetBV(kind string, w int, typ types.Type) externalFn {
	return func(fr *frame, args []value) value {
		p := needPath(fr)
		return p.fresh(argStr(args[0]), kind, bvSort(w))
	}
}

var vrtExternals = map[string]externalFn{
	"Byte":   nondetBV("byte", 8, nil),
	"Int":    nondetBV("int", 64, nil),
	"Int64":  nondetBV("int64", 64, nil),
	"Uint64": nondetBV("uint64", 64, nil),
	"Uint32": nondetBV("uint32", 32, nil),
	"Int32":  nondetBV("int32", 32, nil),
	"Rune":   nondetBV("rune", 32, nil),
	"Bool": func(fr *frame, args []value) value {
		return needPath(fr).fresh(argStr(args[0]), "bool", sortBool)
	},
	"Float64": func(fr *frame, args []value) value {
		p := needPath(fr)
		b := p.fresh(argStr(args[0]), "float64", bvSort(64))
		return p.tt().Mk(OFOfBits, sortFP64, 0, b)
	},
	"Bytes": func(fr *frame, args []value) value {
		p := needPath(fr)
		n := int(fr.toInt(args[1], nil))
		out := make([]value, n)
		for i := range out {
			out[i] = p.fresh(fmt.Sprintf("%s[%d]", argStr(args[0]), i), "byte", bvSort(8))
		}
		return out
	},
	"Str": func(fr *frame, args []value) value {
		p := needPath(fr)
		n := int(fr.toInt(args[1], nil))
		out := make([]value, n)
		for i := range out {
			out[i] = p.fresh(fmt.Sprintf("%s[%d]", argStr(args[0]), i), "byte", bvSort(8))
		}
		return mkStr(out)
	},
	"AbsString": func(fr *frame, args []value) value {
		p := needPath(fr)
		n := p.fresh(argStr(args[0])+".len", "int", bvSort(64))
		tt := p.tt()
		p.addPC(tt.Mk(OSle, sortBool, 0, tt.BV(64, 0), n))
		p.absCount++
		return absStr{n: n, id: p.absCount}
	},
	"Choice": func(fr *frame, args []value) value {
		p := needPath(fr)
		n := fr.toInt(args[1], nil)
		v := p.fresh(argStr(args[0]), "int", bvSort(64))
		tt := p.tt()
		p.addPC(tt.Mk(OUlt, sortBool, 0, v, tt.BV(64, uint64(n))))
		return int(fr.toInt(v, nil))
	},
	"MakeRat": func(fr *frame, args []value) value {
		// big.Rat{a: Int{neg, abs}, b: Int{neg:false, abs:[den]}} in normal form
		tt := fr.tt()
		num := fr.termOf(args[0])
		den := fr.termOf(args[1])
		neg := tt.Mk(OSlt, sortBool, 0, num, tt.BV(64, 0))
		abs := tt.Ite(neg, tt.Mk(ONeg, bvSort(64), 0, num), num)
		u := types.Typ[types.Uint]
		var cell value = structure{
			structure{fr.vBool(neg), []value{fr.valueOfTerm(abs, u)}},
			structure{false, []value{fr.valueOfTerm(den, u)}},
		}
		return &cell
	},
	"Concrete": func(fr *frame, args []value) value {
		return int(fr.toInt(args[0], nil))
	},
	"Assume": func(fr *frame, args []value) value {
		p := needPath(fr)
		switch c := args[0].(type) {
		case bool:
			if !c {
				panic(pathEnd{stAssumeFalse, ""})
			}
		case *Term:
			r, _ := p.check(c)
			if r == Unsat {
				panic(pathEnd{stAssumeFalse, ""})
			}
			if r == Unknown {
				p.tainted = true
				p.w.unknownFeas++
			}
			p.addPC(c)
		}
		return nil
	},
	"Assert": func(fr *frame, args []value) value {
		doAssert(fr, args[0], argStr(args[1]))
		return nil
	},
	"Fail": func(fr *frame, args []value) value {
		doAssert(fr, false, argStr(args[0]))
		return nil
	},
	"Settle": func(fr *frame, args []value) value {
		if s := fr.i.sched; s != nil {
			me := s.cur
			s.block(fr, "settle", func() bool { return !s.othersEnabled(me) })
		}
		return nil
	},
	"Resources": func(fr *frame, args []value) value {
		fds := 0
		for _, p := range fr.i.pipes {
			if !p.wclosed {
				fds++
			}
			if !p.rclosed {
				fds++
			}
		}
		gs := 0
		if s := fr.i.sched; s != nil {
			for _, g := range s.gs {
				if !g.done && g != s.cur {
					gs++
				}
			}
		}
		return tuple{fds, gs}
	},
	"TempDir": func(fr *frame, args []value) value { return "/vfs" },
	"WriteFile": func(fr *frame, args []value) value {
		path, ok := args[0].(string)
		if !ok {
			// a file with a symbolic name: only harness-served directory
			// listings can see it
			return nil
		}
		if fr.i.vfs == nil {
			fr.i.vfs = map[string]value{}
		}
		fr.i.vfs[filepath.Clean(path)] = args[1]
		return nil
	},
	"Chdir":     func(fr *frame, args []value) value { fr.i.cwd, _ = args[0].(string); return nil },
	"RemoveAll": func(fr *frame, args []value) value { return nil },
	"Reach": func(fr *frame, args []value) value {
		p := needPath(fr)
		p.asserts["reach:"+argStr(args[0])]++
		return nil
	},
	"And": func(fr *frame, args []value) value { return fr.vAnd(args[0], args[1]) },
	"Or":  func(fr *frame, args []value) value { return fr.vOr(args[0], args[1]) },
	"Not": func(fr *frame, args []value) value { return fr.vNot(args[0]) },
	"Implies": func(fr *frame, args []value) value {
		return fr.vOr(fr.vNot(args[0]), args[1])
	},
	"Iff": func(fr *frame, args []value) value {
		return fr.vOr(fr.vAnd(args[0], args[1]), fr.vAnd(fr.vNot(args[0]), fr.vNot(args[1])))
	},
	"IteInt": func(fr *frame, args []value) value {
		return symIte(fr, args[0], args[1], args[2], types.Typ[types.Int])
	},
	"Symbolic": func(fr *frame, args []value) value { return true },
	"Log": func(fr *frame, args []value) value {
		if fr.i.w.verbose {
			fmt.Fprintln(osStderr, "vrt.Log:", toString(args[0]))
		}
		return nil
	},
}

func doAssert(fr *frame, cond value, msg string) {
	p := needPath(fr)
	c := p.c
	p.asserts[msg]++
	c.mu.Lock()
	c.obligations++
	c.mu.Unlock()
	tt := p.tt()
	var neg *Term
	switch cv := cond.(type) {
	case bool:
		if cv {
			c.mu.Lock()
			c.discharged++
			c.mu.Unlock()
			return
		}
		neg = tt.Bool(true)
	case *Term:
		neg = tt.Not(cv)
	default:
		checkBad(cond)
		panic(fmt.Sprintf("Assert on %T", cond))
	}
	// known-finding classes for this site
	var classes []string
	var ids []string
	for _, k := range p.w.e.known {
		if k.Status == "known" && k.Harness == c.H.Func && k.Site == msg && (k.Params == nil || fmt.Sprint(k.Params) == fmt.Sprint(c.Params)) {
			classes = append(classes, k.Class)
			ids = append(ids, k.ID)
		}
	}
	r, cm := p.checkWithRaw(neg, classes)
	switch r {
	case Unsat:
		if len(classes) > 0 {
			// is the violation reachable at all (known class)?
			r2, _ := p.check(neg)
			if r2 == Sat {
				p.w.e.noteKnown(ids, c, msg)
			} else if r2 == Unsat {
				c.mu.Lock()
				c.discharged++
				c.mu.Unlock()
			}
		} else {
			c.mu.Lock()
			c.discharged++
			c.mu.Unlock()
		}
	case Sat:
		p.w.recordViolation(p, "assert", msg, "assertion failed: "+msg+" at "+fr.caller.pos(), cm)
	default:
		p.tainted = true
		p.w.unknownBranches++
		c.mu.Lock()
		if c.reasons == nil {
			c.reasons = map[string]int{}
		}
		c.reasons["unknown: assertion query undecided: "+msg]++
		c.mu.Unlock()
	}
	// continue under the assumption that the assertion holds
	if cv, ok := cond.(*Term); ok {
		r, _ := p.check(cv)
		if r == Unsat {
			panic(pathEnd{stViolation, "assertion always fails here: " + msg})
		}
		p.addPC(cv)
	} else {
		panic(pathEnd{stViolation, "assertion failed: " + msg})
	}
}

// checkWithRaw checks pc ∧ c ∧ ¬class_i where classes are raw SMT-LIB text
// over the nondet names.
func (p *Path) checkWithRaw(c *Term, classes []string) (SatResult, *cachedModel) {
	if len(classes) == 0 {
		return p.check(c)
	}
	asserts := append(append([]*Term{}, p.pc...), c)
	var raw []string
	for _, cl := range classes {
		raw = append(raw, "(not "+cl+")")
	}
	r, m := p.w.solver.Query(asserts, raw, p.vars())
	var cm *cachedModel
	if r == Sat {
		cm = p.addModel(m)
	}
	return r, cm
}

func (e *Engine) noteKnown(ids []string, c *Case, site string) {
	e.mu.Lock()
	defer e.mu.Unlock()
	if e.knownHit == nil {
		e.knownHit = map[string]string{}
	}
	for _, id := range ids {
		e.knownHit[id] = c.H.Func + ": " + site
	}
}

// ---------------------------------------------------------------- std library

func bytesOf(v value) []value {
	switch v := v.(type) {
	case []value:
		return v
	case string, sstr:
		return strBytes(v)
	}
	checkBad(v)
	panic(pathEnd{stUnsupported, fmt.Sprintf("bytesOf(%T)", v)})
}

var byteT = types.Typ[types.Uint8]

func shimIndexByte(fr *frame, args []value) value {
	s := bytesOf(args[0])
	for i := range s {
		if fr.toBool(equals(fr, byteT, s[i], args[1])) {
			return i
		}
	}
	return -1
}

func shimLastIndexByte(fr *frame, args []value) value {
	s := bytesOf(args[0])
	for i := len(s) - 1; i >= 0; i-- {
		if fr.toBool(equals(fr, byteT, s[i], args[1])) {
			return i
		}
	}
	return -1
}

func shimCount(fr *frame, args []value) value {
	s := bytesOf(args[0])
	n := 0
	for i := range s {
		if fr.toBool(equals(fr, byteT, s[i], args[1])) {
			n++
		}
	}
	return n
}

func seqEqual(fr *frame, a, b []value) value {
	if len(a) != len(b) {
		return false
	}
	var acc value = true
	for i := range a {
		acc = fr.vAnd(acc, equals(fr, byteT, a[i], b[i]))
		if acc == false {
			return false
		}
	}
	return acc
}

func shimIndex(fr *frame, args []value) value {
	a, b := bytesOf(args[0]), bytesOf(args[1])
	for i := 0; i+len(b) <= len(a); i++ {
		if fr.toBool(seqEqual(fr, a[i:i+len(b)], b)) {
			return i
		}
	}
	return -1
}

func shimCompare(fr *frame, args []value) value {
	a, b := bytesOf(args[0]), bytesOf(args[1])
	n := len(a)
	if len(b) < n {
		n = len(b)
	}
	for i := 0; i < n; i++ {
		if fr.toBool(equals(fr, byteT, a[i], b[i])) {
			continue
		}
		if fr.toBool(binop(fr, tokenLSS, byteT, byteT, a[i], b[i])) {
			return -1
		}
		return 1
	}
	switch {
	case len(a) < len(b):
		return -1
	case len(a) > len(b):
		return 1
	}
	return 0
}

// ---- unicode tables as range predicates

type runeRanges [][2]int32

var uniPreds = map[string]func(rune) bool{
	"unicode.IsPrint": unicode.IsPrint, "unicode.IsSpace": unicode.IsSpace, "unicode.IsLetter": unicode.IsLetter,
	"unicode.IsDigit": unicode.IsDigit, "unicode.IsNumber": unicode.IsNumber, "unicode.IsGraphic": unicode.IsGraphic,
	"unicode.IsUpper": unicode.IsUpper, "unicode.IsLower": unicode.IsLower, "unicode.IsControl": unicode.IsControl,
	"unicode.IsPunct": unicode.IsPunct, "unicode.IsSymbol": unicode.IsSymbol, "unicode.IsMark": unicode.IsMark,
	"unicode.IsTitle": unicode.IsTitle,
}

var uniRanges = map[string]runeRanges{}

func init() {
	for name, f := range uniPreds {
		var rr runeRanges
		start := int32(-1)
		for r := int32(0); r <= unicode.MaxRune+1; r++ {
			in := r <= unicode.MaxRune && f(r)
			if in && start < 0 {
				start = r
			}
			if !in && start >= 0 {
				rr = append(rr, [2]int32{start, r - 1})
				start = -1
			}
		}
		uniRanges[name] = rr
	}
}

func rangePred(fr *frame, r *Term, rr runeRanges) value {
	tt := fr.tt()
	var ds []*Term
	hi := umax(r) // syntactic upper bound of the rune term: prune the table
	if p := fr.i.p; p != nil && hi > 0x7f && len(rr) > 8 {
		// semantic upper bound under the path condition (at most 3 cheap
		// queries): the pruned predicate is equivalent on this path
		for _, b := range []uint64{0x7f, 0x7ff, 0xffff} {
			if b >= hi {
				break
			}
			if res, _ := p.check(tt.Mk(OUlt, sortBool, 0, tt.BV(32, b), r)); res == Unsat {
				hi = b
				break
			}
		}
	}
	for _, x := range rr {
		if uint64(x[0]) > hi && hi < 1<<31 {
			break
		}
		lo, hi := tt.BV(32, uint64(uint32(x[0]))), tt.BV(32, uint64(uint32(x[1])))
		if x[0] == x[1] {
			ds = append(ds, tt.Eq(r, lo))
		} else {
			ds = append(ds, tt.And(tt.Mk(OSle, sortBool, 0, lo, r), tt.Mk(OSle, sortBool, 0, r, hi)))
		}
	}
	if len(ds) == 0 {
		return false
	}
	return fr.vBool(tt.Or(ds...))
}

func uniPredExt(name string) externalFn {
	return func(fr *frame, args []value) value {
		switch r := args[0].(type) {
		case int32:
			return uniPreds[name](r)
		case *Term:
			return rangePred(fr, r, uniRanges[name])
		}
		checkBad(args[0])
		panic("unicode predicate on non-rune")
	}
}

// unicode.Is(rangeTab *RangeTable, r rune) with symbolic r: read the ranges
// from the interpreted table object.
func extUnicodeIs(fr *frame, args []value) value {
	r, sym := args[1].(*Term)
	tab := args[0].(*value)
	if tab == nil {
		rtPanic(fr, "invalid memory address or nil pointer dereference")
	}
	st := (*tab).(structure) // R16 []Range16, R32 []Range32, LatinOffset int
	var rr runeRanges
	addRanges := func(v value) {
		for _, e := range v.([]value) {
			s := e.(structure)
			lo, hi, stride := asInt64(s[0]), asInt64(s[1]), asInt64(s[2])
			if stride == 1 {
				rr = append(rr, [2]int32{int32(lo), int32(hi)})
			} else {
				for x := lo; x <= hi; x += stride {
					rr = append(rr, [2]int32{int32(x), int32(x)})
				}
			}
		}
	}
	addRanges(st[0])
	addRanges(st[1])
	if !sym {
		rc := args[1].(int32)
		for _, x := range rr {
			if x[0] <= rc && rc <= x[1] {
				return true
			}
		}
		return false
	}
	return rangePred(fr, r, rr)
}

// ---- math

func fpUn(op Op, c uint64, native func(float64) float64) externalFn {
	return func(fr *frame, args []value) value {
		switch x := args[0].(type) {
		case float64:
			return native(x)
		case *Term:
			return fr.valueOfTerm(fr.tt().Mk(op, sortFP64, c, x), types.Typ[types.Float64])
		}
		checkBad(args[0])
		panic("fpUn")
	}
}

func fpUF(name string, native func(...float64) float64) externalFn {
	return func(fr *frame, args []value) value {
		allc := true
		fs := make([]float64, len(args))
		for i, a := range args {
			if f, ok := a.(float64); ok {
				fs[i] = f
			} else {
				allc = false
			}
		}
		if allc {
			return native(fs...)
		}
		ts := make([]*Term, len(args))
		for i, a := range args {
			ts[i] = fr.termOf(a)
		}
		return fr.tt().UF("uf_"+name, sortFP64, ts...)
	}
}

var tokenLSS = tokLSS()

var stdExternals = map[string]externalFn{
	"internal/bytealg.IndexByte":         shimIndexByte,
	"internal/bytealg.IndexByteString":   shimIndexByte,
	"internal/bytealg.LastIndexByte":     shimLastIndexByte,
	"internal/bytealg.LastIndexByteString": shimLastIndexByte,
	"internal/bytealg.Count":             shimCount,
	"internal/bytealg.CountString":       shimCount,
	"internal/bytealg.Index":             shimIndex,
	"internal/bytealg.IndexString":       shimIndex,
	"internal/bytealg.Compare":           shimCompare,
	"internal/bytealg.CompareString":     shimCompare,
	"internal/bytealg.Equal": func(fr *frame, args []value) value {
		return seqEqual(fr, bytesOf(args[0]), bytesOf(args[1]))
	},
	"bytes.Equal": func(fr *frame, args []value) value {
		return seqEqual(fr, bytesOf(args[0]), bytesOf(args[1]))
	},
	"internal/bytealg.MakeNoZero": func(fr *frame, args []value) value {
		if t, ok := args[0].(*Term); ok {
			tt := fr.tt()
			if fr.toBool(fr.vBool(tt.Mk(OSlt, sortBool, 0, tt.BV(64, 1<<40), t))) {
				panic(pathEnd{stViolation, "allocation size controlled by input can exceed 2^40 elements (MakeNoZero from " + fr.callerPos() + ")"})
			}
			if fr.toBool(fr.vBool(tt.Mk(OSlt, sortBool, 0, tt.BV(64, 1<<12), t))) {
				panic(pathEnd{stUnsupported, "symbolic allocation size between 2^12 and 2^40 (MakeNoZero): bound it in the harness"})
			}
		}
		n := int(fr.toInt(args[0], nil))
		if n > maxAlloc {
			panic(pathEnd{stViolation, fmt.Sprintf("huge allocation request: %d bytes", n)})
		}
		out := make([]value, n)
		for i := range out {
			out[i] = uint8(0)
		}
		return out
	},
	"internal/stringslite.Index":     shimIndex,
	"internal/stringslite.IndexByte": shimIndexByte,
	"strings.IndexByte":              shimIndexByte,
	"bytes.IndexByte":                shimIndexByte,
	"internal/stringslite.Clone":    func(fr *frame, args []value) value { return args[0] },
	"strings.Clone":                 func(fr *frame, args []value) value { return args[0] },
	"internal/abi.NoEscape":          func(fr *frame, args []value) value { return args[0] },
	"internal/abi.Escape":            func(fr *frame, args []value) value { return args[0] },
	"runtime.KeepAlive":              func(fr *frame, args []value) value { return nil },
	"runtime.Gosched":                func(fr *frame, args []value) value { schedYield(fr); return nil },
	"runtime.GOMAXPROCS":             func(fr *frame, args []value) value { return 4 },
	"runtime.NumCPU":                 func(fr *frame, args []value) value { return 4 },
	"internal/race.Acquire":          func(fr *frame, args []value) value { return nil },
	"internal/race.Release":          func(fr *frame, args []value) value { return nil },
	"internal/race.ReleaseMerge":     func(fr *frame, args []value) value { return nil },
	"internal/race.Enable":           func(fr *frame, args []value) value { return nil },
	"internal/race.Disable":          func(fr *frame, args []value) value { return nil },
	"internal/race.Read":             func(fr *frame, args []value) value { return nil },
	"internal/race.Write":            func(fr *frame, args []value) value { return nil },

	"math.Float64bits": func(fr *frame, args []value) value {
		switch x := args[0].(type) {
		case float64:
			return math.Float64bits(x)
		case *Term:
			return fr.valueOfTerm(fr.tt().Mk(OFBits, bvSort(64), 0, x), types.Typ[types.Uint64])
		}
		panic("Float64bits")
	},
	"math.Float64frombits": func(fr *frame, args []value) value {
		switch x := args[0].(type) {
		case uint64:
			return math.Float64frombits(x)
		case *Term:
			return fr.valueOfTerm(fr.tt().Mk(OFOfBits, sortFP64, 0, x), types.Typ[types.Float64])
		}
		panic("Float64frombits")
	},
	"math.Float32bits":     func(fr *frame, args []value) value { return math.Float32bits(args[0].(float32)) },
	"math.Float32frombits": func(fr *frame, args []value) value { return math.Float32frombits(args[0].(uint32)) },
	"math.IsNaN": func(fr *frame, args []value) value {
		switch x := args[0].(type) {
		case float64:
			return math.IsNaN(x)
		case *Term:
			return fr.vBool(fr.tt().Mk(OFIsNaN, sortBool, 0, x))
		}
		panic("IsNaN")
	},
	"math.IsInf": func(fr *frame, args []value) value {
		sign := fr.toInt(args[1], nil)
		switch x := args[0].(type) {
		case float64:
			return math.IsInf(x, int(sign))
		case *Term:
			tt := fr.tt()
			inf := tt.Mk(OFIsInf, sortBool, 0, x)
			zero := tt.FP(0)
			switch {
			case sign > 0:
				return fr.vBool(tt.And(inf, tt.Mk(OFLt, sortBool, 0, zero, x)))
			case sign < 0:
				return fr.vBool(tt.And(inf, tt.Mk(OFLt, sortBool, 0, x, zero)))
			}
			return fr.vBool(inf)
		}
		panic("IsInf")
	},
	"math.Inf": func(fr *frame, args []value) value { return math.Inf(int(fr.toInt(args[0], nil))) },
	"math.NaN": func(fr *frame, args []value) value { return math.NaN() },
	"math.Abs":         fpUn(OFAbs, 0, math.Abs),
	"math.Floor":       fpUn(OFRound, 3, math.Floor),
	"math.Ceil":        fpUn(OFRound, 2, math.Ceil),
	"math.Trunc":       fpUn(OFRound, 4, math.Trunc),
	"math.Round":       fpUn(OFRound, 1, math.Round),
	"math.RoundToEven": fpUn(OFRound, 0, math.RoundToEven),
	"math.Signbit": func(fr *frame, args []value) value {
		switch x := args[0].(type) {
		case float64:
			return math.Signbit(x)
		case *Term:
			tt := fr.tt()
			// sign bit; for NaN unspecified by the FP theory: use the bits
			bits := tt.Mk(OFBits, bvSort(64), 0, x)
			return fr.vBool(tt.Eq(tt.Extract(bits, 63, 63), tt.BV(1, 1)))
		}
		panic("Signbit")
	},
	"math.Sqrt":  fpUF("sqrt", func(a ...float64) float64 { return math.Sqrt(a[0]) }),
	"math.Pow":   fpUF("pow", func(a ...float64) float64 { return math.Pow(a[0], a[1]) }),
	"math.Log":   fpUF("log", func(a ...float64) float64 { return math.Log(a[0]) }),
	"math.Log2":  fpUF("log2", func(a ...float64) float64 { return math.Log2(a[0]) }),
	"math.Log10": fpUF("log10", func(a ...float64) float64 { return math.Log10(a[0]) }),
	"math.Exp":   fpUF("exp", func(a ...float64) float64 { return math.Exp(a[0]) }),
	"math.Sin":   fpUF("sin", func(a ...float64) float64 { return math.Sin(a[0]) }),
	"math.Cos":   fpUF("cos", func(a ...float64) float64 { return math.Cos(a[0]) }),
	"math.Tan":   fpUF("tan", func(a ...float64) float64 { return math.Tan(a[0]) }),
	"math.Asin":  fpUF("asin", func(a ...float64) float64 { return math.Asin(a[0]) }),
	"math.Acos":  fpUF("acos", func(a ...float64) float64 { return math.Acos(a[0]) }),
	"math.Atan":  fpUF("atan", func(a ...float64) float64 { return math.Atan(a[0]) }),
	"math.Atan2": fpUF("atan2", func(a ...float64) float64 { return math.Atan2(a[0], a[1]) }),
	"math.Sinh":  fpUF("sinh", func(a ...float64) float64 { return math.Sinh(a[0]) }),
	"math.Cosh":  fpUF("cosh", func(a ...float64) float64 { return math.Cosh(a[0]) }),
	"math.Tanh":  fpUF("tanh", func(a ...float64) float64 { return math.Tanh(a[0]) }),
	"math.Asinh": fpUF("asinh", func(a ...float64) float64 { return math.Asinh(a[0]) }),
	"math.Acosh": fpUF("acosh", func(a ...float64) float64 { return math.Acosh(a[0]) }),
	"math.Atanh": fpUF("atanh", func(a ...float64) float64 { return math.Atanh(a[0]) }),
	"math.Mod":   fpUF("mod", func(a ...float64) float64 { return math.Mod(a[0], a[1]) }),
	"math.Max":   fpUF("max", func(a ...float64) float64 { return math.Max(a[0], a[1]) }),
	"math.Min":   fpUF("min", func(a ...float64) float64 { return math.Min(a[0], a[1]) }),
	"math.Hypot": fpUF("hypot", func(a ...float64) float64 { return math.Hypot(a[0], a[1]) }),
	"math.Cbrt":  fpUF("cbrt", func(a ...float64) float64 { return math.Cbrt(a[0]) }),

	"unicode.Is": extUnicodeIs,

	// vals.ScanToGoOpts: the numeric/rune cases run the real code; the generic
	// case (plain assignment decided with reflect.Type.AssignableTo) is done
	// with go/types on the static types.
	"src.elv.sh/pkg/eval/vals.ScanToGoOpts": extScanToGo,
	// vals.typeOf reads the type-descriptor word of an interface (unsafe); any
	// injective numbering of dynamic types is an equivalent implementation.
	"src.elv.sh/pkg/eval/vals.typeOf": extValsTypeOf,
	// time.After: the timer may fire at any moment; modelled as a channel that
	// is ready at once, so that a select between it and another channel takes
	// either branch depending on the (explored) schedule.
	"time.After": func(fr *frame, args []value) value {
		tp := fr.i.prog.ImportedPackage("time")
		if tp == nil {
			panic(pathEnd{stUnsupported, "time package not loaded"})
		}
		tt := tp.Type("Time").Object().Type()
		return &chanObj{cap: 1, buf: []value{zero(tt)}, elem: tt}
	},
	// eval.scanOptions fills an options struct through reflect (field
	// addresses); done here on the static struct type, each field converted by
	// the (intercepted) vals.ScanToGo.
	"src.elv.sh/pkg/eval.scanOptions": extScanOptions,

	"sort.Slice":       func(fr *frame, args []value) value { return sortSlice(fr, args, false) },
	"sort.SliceStable": func(fr *frame, args []value) value { return sortSlice(fr, args, true) },

	// math/bits wide arithmetic as one wide bit-vector operation
	"math/bits.Mul64": func(fr *frame, args []value) value {
		if x, ok := args[0].(uint64); ok {
			if y, ok := args[1].(uint64); ok {
				hi, lo := mbits.Mul64(x, y)
				return tuple{hi, lo}
			}
		}
		tt := fr.tt()
		x := tt.Mk(OZext, bvSort(128), 0, fr.termOf(args[0]))
		y := tt.Mk(OZext, bvSort(128), 0, fr.termOf(args[1]))
		p := tt.Mk(OMul, bvSort(128), 0, x, y)
		u := types.Typ[types.Uint64]
		return tuple{fr.valueOfTerm(tt.Extract(p, 127, 64), u), fr.valueOfTerm(tt.Extract(p, 63, 0), u)}
	},
	"math/bits.Add64": func(fr *frame, args []value) value {
		tt := fr.tt()
		x := tt.Mk(OZext, bvSort(65), 0, fr.termOf(args[0]))
		y := tt.Mk(OZext, bvSort(65), 0, fr.termOf(args[1]))
		c := tt.Mk(OZext, bvSort(65), 0, fr.termOf(args[2]))
		r := tt.Mk(OAdd, bvSort(65), 0, tt.Mk(OAdd, bvSort(65), 0, x, y), c)
		u := types.Typ[types.Uint64]
		return tuple{fr.valueOfTerm(tt.Extract(r, 63, 0), u), fr.valueOfTerm(tt.Mk(OZext, bvSort(64), 0, tt.Extract(r, 64, 64)), u)}
	},
	"math/bits.Sub64": func(fr *frame, args []value) value {
		tt := fr.tt()
		x := tt.Mk(OZext, bvSort(65), 0, fr.termOf(args[0]))
		y := tt.Mk(OZext, bvSort(65), 0, fr.termOf(args[1]))
		c := tt.Mk(OZext, bvSort(65), 0, fr.termOf(args[2]))
		r := tt.Mk(OSub, bvSort(65), 0, tt.Mk(OSub, bvSort(65), 0, x, y), c)
		u := types.Typ[types.Uint64]
		return tuple{fr.valueOfTerm(tt.Extract(r, 63, 0), u), fr.valueOfTerm(tt.Mk(OZext, bvSort(64), 0, tt.Extract(r, 64, 64)), u)}
	},

	"strconv.Itoa": func(fr *frame, args []value) value {
		switch x := args[0].(type) {
		case int:
			return strconv.Itoa(x)
		case *Term:
			if fr.i.p != nil && fr.i.p.c != nil && fr.i.p.c.H.EnumInts {
				return strconv.Itoa(int(fr.toInt(x, types.Typ[types.Int])))
			}
			return opaqueString(fr)
		}
		panic("Itoa")
	},
	"strconv.FormatInt": func(fr *frame, args []value) value {
		if x, ok := args[0].(int64); ok {
			if b, ok := args[1].(int); ok {
				return strconv.FormatInt(x, b)
			}
		}
		return opaqueString(fr)
	},
	"strconv.FormatUint": func(fr *frame, args []value) value {
		if x, ok := args[0].(uint64); ok {
			if b, ok := args[1].(int); ok {
				return strconv.FormatUint(x, b)
			}
		}
		return opaqueString(fr)
	},
	"strconv.FormatFloat": func(fr *frame, args []value) value {
		if x, ok := args[0].(float64); ok {
			f, ok1 := args[1].(uint8)
			p, ok2 := args[2].(int)
			b, ok3 := args[3].(int)
			if ok1 && ok2 && ok3 {
				return strconv.FormatFloat(x, f, p, b)
			}
		}
		return opaqueString(fr)
	},
	"strconv.Quote": func(fr *frame, args []value) value {
		if s, ok := args[0].(string); ok {
			return strconv.Quote(s)
		}
		return opaqueString(fr)
	},
	"strconv.ParseFloat": func(fr *frame, args []value) value {
		if s, ok := args[0].(string); ok {
			f, err := strconv.ParseFloat(s, int(fr.toInt(args[1], nil)))
			if err == nil {
				return tuple{f, iface{}}
			}
			return tuple{f, fr.i.mkError("strconv.ParseFloat: parsing " + strconv.Quote(s) + ": " + err.(*strconv.NumError).Err.Error())}
		}
		panic(pathEnd{stUnsupported, "strconv.ParseFloat of symbolic string"})
	},
}


func opaqueString(fr *frame) value {
	if os.Getenv("VERIF_DEBUG_OPAQUE") != "" {
		chain := ""
		for f, k := fr, 0; f != nil && k < 8; f, k = f.caller, k+1 {
			chain += " <- " + f.fn.String()
		}
		fmt.Fprintln(os.Stderr, "OPAQUE:", chain)
	}
	p := needPath(fr)
	n := p.fresh("opaque.len", "int", bvSort(64))
	tt := p.tt()
	p.addPC(tt.And(tt.Mk(OSle, sortBool, 0, tt.BV(64, 0), n), tt.Mk(OSle, sortBool, 0, n, tt.BV(64, 1<<20))))
	p.absCount++
	// opaque strings are not replay inputs: drop the record again
	p.nondets = p.nondets[:len(p.nondets)-1]
	p.extraVars = append(p.extraVars, n)
	return absStr{n: n, id: p.absCount}
}

// mkError builds an error value (*errors.errorString).
func (i *interpreter) mkError(msg string) value {
	ep := i.prog.ImportedPackage("errors")
	if ep == nil {
		panic(pathEnd{stUnsupported, "errors package not loaded"})
	}
	t := ep.Type("errorString").Object().Type()
	var cell value = structure{msg}
	return iface{t: types.NewPointer(t), v: &cell}
}

var _ = strings.Contains

// sortSlice runs the real sort algorithm bodies (pdqsort_func / stable_func)
// with an engine-provided swapper (the real one is built with reflection).
func sortSlice(fr *frame, args []value, stable bool) value {
	x := args[0].(iface)
	s, ok := x.v.([]value)
	if !ok {
		checkBad(x.v)
		panic(pathEnd{stUnsupported, "sort.Slice of non-slice"})
	}
	n := len(s)
	swap := &nativeFn{name: "swap", f: func(fr *frame, a []value) value {
		i, j := int(fr.toInt(a[0], nil)), int(fr.toInt(a[1], nil))
		s[i], s[j] = s[j], s[i]
		return nil
	}}
	ls := structure{args[1], swap}
	if stable {
		fn := fr.i.lookupFunc("sort", "stable_func")
		callSSA(fr.i, fr, 0, fn, []value{ls, n}, nil)
		return nil
	}
	fn := fr.i.lookupFunc("sort", "pdqsort_func")
	callSSA(fr.i, fr, 0, fn, []value{ls, 0, n, mbits.Len(uint(n))}, nil)
	return nil
}

func extScanToGo(fr *frame, args []value) value {
	src, _ := args[0].(iface)
	ptr, ok := args[1].(iface)
	if !ok || ptr.t == nil {
		panic(pathEnd{stUnsupported, "ScanToGo with nil pointer"})
	}
	pt, ok := ptr.t.Underlying().(*types.Pointer)
	if !ok {
		panic(pathEnd{stUnsupported, "ScanToGo destination is not a pointer"})
	}
	elem := pt.Elem()
	real := func() value {
		fn := fr.i.lookupFunc("src.elv.sh/pkg/eval/vals", "ScanToGoOpts")
		fr.i.bypass = fn
		defer func() { fr.i.bypass = nil }()
		return callSSA(fr.i, fr, 0, fn, args, nil)
	}
	if b, isBasic := elem.Underlying().(*types.Basic); isBasic {
		switch b.Kind() {
		case types.Int, types.Float64, types.Int32:
			return real()
		}
	}
	if n, isNamed := elem.(*types.Named); isNamed && n.Obj().Name() == "Num" {
		return real()
	}
	dst := ptr.v.(*value)
	if dst == nil {
		rtPanic(fr, "invalid memory address or nil pointer dereference")
	}
	_, dstIsIface := elem.Underlying().(*types.Interface)
	switch {
	case src.t == nil:
		switch elem.Underlying().(type) {
		case *types.Interface, *types.Pointer, *types.Slice, *types.Map, *types.Chan, *types.Signature:
			*dst = zero(elem)
			return iface{}
		}
	case types.AssignableTo(src.t, elem):
		if dstIsIface {
			*dst = src
		} else {
			store(elem, dst, src.v)
		}
		return iface{}
	}
	return fr.i.mkError("wrong type: need " + elem.String())
}

func extValsTypeOf(fr *frame, args []value) value {
	x, _ := args[0].(iface)
	id := func(t types.Type) value {
		if t == nil {
			return uintptr(0)
		}
		h := uint64(14695981039346656037)
		for _, c := range []byte(t.String()) {
			h = (h ^ uint64(c)) * 1099511628211
		}
		return uintptr(h>>16 | 1)
	}
	if x.t != nil {
		switch x.t.String() {
		case "int", "float64", "*math/big.Int", "*math/big.Rat":
			return id(types.Typ[types.Int])
		}
		if _, isStruct := x.t.Underlying().(*types.Struct); isStruct {
			fn := fr.i.lookupFunc("src.elv.sh/pkg/eval/vals", "IsFieldMap")
			if callSSA(fr.i, fr, 0, fn, []value{x}, nil) == true {
				return id(types.NewStruct(nil, nil))
			}
		}
	}
	return id(x.t)
}

func extScanOptions(fr *frame, args []value) value {
	raw, _ := args[0].(*omap)
	ptr, ok := args[1].(iface)
	if !ok || ptr.t == nil {
		panic(pathEnd{stUnsupported, "scanOptions with nil pointer"})
	}
	pt, ok := ptr.t.Underlying().(*types.Pointer)
	if !ok {
		panic(pathEnd{stUnsupported, "scanOptions destination is not a pointer"})
	}
	st, ok := pt.Elem().Underlying().(*types.Struct)
	if !ok {
		panic(pathEnd{stUnsupported, "scanOptions destination is not a struct"})
	}
	cell := ptr.v.(*value)
	fields := (*cell).(structure)
	dashed := fr.i.lookupFunc("src.elv.sh/pkg/strutil", "CamelToDashed")
	keys := map[string]int{}
	for k := 0; k < st.NumFields(); k++ {
		f := st.Field(k)
		if !f.Exported() {
			panic(pathEnd{stUnsupported, "options struct with unexported field"})
		}
		name, _ := callSSA(fr.i, fr, 0, dashed, []value{f.Name()}, nil).(string)
		keys[name] = k
	}
	if raw == nil {
		return iface{}
	}
	scan := fr.i.lookupFunc("src.elv.sh/pkg/eval/vals", "ScanToGo")
	for _, e := range raw.entries {
		if e.deleted {
			continue
		}
		key, isStr := e.key.(string)
		k, known := keys[key]
		if !isStr || !known {
			ep := fr.i.prog.ImportedPackage("src.elv.sh/pkg/eval")
			t := ep.Type("UnknownOption").Object().Type()
			return iface{t: t, v: structure{e.key}}
		}
		dst := iface{t: types.NewPointer(st.Field(k).Type()), v: &fields[k]}
		if err := callSSA(fr.i, fr, 0, scan, []value{e.val, dst}, nil); err != (iface{}) {
			return err
		}
	}
	return iface{}
}
