package main

// Path exploration: stateless DFS by replay of decision prefixes.

import (
	"fmt"
	"go/token"
	"os"
	"sort"
	"strings"
	"sync"
	"time"

	"golang.org/x/tools/go/ssa"
)

type pathStatus int

const (
	stComplete pathStatus = iota
	stAssumeFalse
	stViolation
	stUnsupported
	stBudget
	stUnknown
	stInfeasible
	stUnwound
)

var statusNames = []string{"complete", "pruned_by_assume", "violation", "unsupported", "budget", "unknown", "infeasible", "unwound_out"}

type pathEnd struct {
	status pathStatus
	reason string
}

type Decision struct {
	K byte   // 'b' branch, 'e' value equals, 'n' value differs
	V uint64 // branch: 1 = true
}

type nondetRec struct {
	Name string
	Kind string // go kind: byte,int,int64,uint64,uint32,rune,bool,float64
	T    *Term
}

type cachedModel struct {
	m     Model
	memo  map[int]*cval
	valid bool
}

type Path struct {
	w         *Worker
	c         *Case
	prefix    []Decision
	pos       int
	taken     []Decision
	pc        []*Term
	nondets   []nondetRec
	names     map[string]int
	steps     int64
	maxSteps  int64
	models    []*cachedModel
	asserts   map[string]int
	absCount  int
	tainted   bool // an unknown answer was treated as feasible
	events    []string
	forks     int
	goroutines []*goroutine
	extraVars []*Term
	pcSet     map[int]bool
}

func (p *Path) tt() *TermTable { return p.w.tt }

func (p *Path) addPC(c *Term) {
	if c.IsConst() {
		if c.C == 0 {
			panic(pathEnd{stInfeasible, "false path condition"})
		}
		return
	}
	p.pc = append(p.pc, c)
	if p.pcSet == nil {
		p.pcSet = map[int]bool{}
	}
	p.pcSet[c.id] = true
	if c.Op == OAnd {
		for _, a := range c.A {
			p.pcSet[a.id] = true
		}
	}
	if c.Op == ONot && (c.A[0].Op == OUlt || c.A[0].Op == OSlt) {
		lt := c.A[0]
		rev := p.tt().Not(p.tt().Mk(lt.Op, sortBool, 0, lt.A[1], lt.A[0]))
		if p.pcSet[rev.id] {
			// derived equality helps the solver's equation solving
			eq := p.tt().Eq(lt.A[0], lt.A[1])
			if !p.pcSet[eq.id] {
				p.pc = append(p.pc, eq)
				p.pcSet[eq.id] = true
			}
		}
	}
	for _, cm := range p.models {
		if cm.valid {
			v, ok := p.tt().Eval(c, cm.m, cm.memo)
			if !ok || v.u == 0 {
				cm.valid = false
			}
		}
	}
}

func (p *Path) vars() []*Term {
	vs := make([]*Term, 0, len(p.nondets))
	for _, n := range p.nondets {
		if n.T != nil && n.T.Op == OVar {
			vs = append(vs, n.T)
		}
	}
	vs = append(vs, p.extraVars...)
	return vs
}

// cacheLookup returns a cached model satisfying pc ∧ c, if any.
func (p *Path) cacheLookup(c *Term) *cachedModel {
	for _, cm := range p.models {
		if !cm.valid {
			continue
		}
		if c == nil {
			return cm
		}
		v, ok := p.tt().Eval(c, cm.m, cm.memo)
		if ok && v.u != 0 {
			return cm
		}
	}
	return nil
}

func (p *Path) addModel(m Model) *cachedModel {
	cm := &cachedModel{m: m, memo: map[int]*cval{}, valid: true}
	// validate against the pc (also guards against solver/evaluator disagreement)
	for _, c := range p.pc {
		v, ok := p.tt().Eval(c, m, cm.memo)
		if !ok || v.u == 0 {
			cm.valid = false
			break
		}
	}
	if len(p.models) >= 6 {
		// drop an invalid one, else the oldest
		k := 0
		for i, x := range p.models {
			if !x.valid {
				k = i
				break
			}
		}
		p.models = append(p.models[:k], p.models[k+1:]...)
	}
	p.models = append(p.models, cm)
	return cm
}

// check decides satisfiability of pc ∧ c (c may be nil). On Sat a model is
// returned (possibly from the cache).
func (p *Path) check(c *Term) (SatResult, *cachedModel) {
	if c != nil && c.IsConst() {
		if c.C == 0 {
			return Unsat, nil
		}
		c = nil
	}
	if cm := p.cacheLookup(c); cm != nil {
		p.w.solver.Stats.CacheHits++
		return Sat, cm
	}
	if c != nil {
		// syntactic implication by the path condition
		if p.pcSet[c.id] {
			p.w.solver.Stats.CacheHits++
			return p.check(nil)
		}
		if n := p.tt().Not(c); p.pcSet[n.id] {
			p.w.solver.Stats.CacheHits++
			return Unsat, nil
		}
	}
	s := p.w.solver
	r, m := Unknown, Model(nil)
	if inc := p.w.inc; inc != nil {
		r, m = inc.Check(p.pc, c, p.vars())
	}
	if r == Unknown {
		asserts := p.pc
		if c != nil {
			asserts = append(append([]*Term{}, p.pc...), c)
		}
		r, m = s.Query(asserts, nil, p.vars())
	}
	var cm *cachedModel
	if r == Sat {
		cm = p.addModel(m)
		if c != nil {
			if v, ok := p.tt().Eval(c, m, cm.memo); ok && v.u == 0 {
				panic(pathEnd{stUnsupported, "engine: model does not satisfy query (evaluator/solver disagreement): " + c.String()})
			}
		}
	}
	return r, cm
}

// branch decides a symbolic condition.
func (p *Path) branch(fr *frame, c *Term) bool {
	if c.IsConst() {
		return c.C != 0
	}
	tt := p.tt()
	if p.pos < len(p.prefix) {
		d := p.prefix[p.pos]
		if d.K != 'b' {
			panic(pathEnd{stUnsupported, fmt.Sprintf("engine: replay desync (expected branch, have %c) at %s", d.K, fr.pos())})
		}
		p.pos++
		p.taken = append(p.taken, d)
		if d.V == 1 {
			p.addPC(c)
			return true
		}
		p.addPC(tt.Not(c))
		return false
	}
	nc := tt.Not(c)
	rt, _ := p.check(c)
	rf, _ := p.check(nc)
	if rt == Unknown || rf == Unknown {
		// both sides stay explored: a sound over-approximation of the paths
		p.tainted = true
		p.w.unknownFeas++
	}
	canT, canF := rt != Unsat, rf != Unsat
	switch {
	case canT && canF:
		alt := append(append([]Decision{}, p.taken...), Decision{'b', 0})
		p.w.push(p.c, alt)
		p.forks++
		p.taken = append(p.taken, Decision{'b', 1})
		p.pos = len(p.taken)
		p.prefix = p.taken
		p.addPC(c)
		return true
	case canT:
		p.taken = append(p.taken, Decision{'b', 1})
		p.pos = len(p.taken)
		p.prefix = p.taken
		p.addPC(c)
		return true
	case canF:
		p.taken = append(p.taken, Decision{'b', 0})
		p.pos = len(p.taken)
		p.prefix = p.taken
		p.addPC(nc)
		return false
	}
	panic(pathEnd{stInfeasible, "both branches infeasible at " + fr.pos()})
}

const maxConcretize = 300

// concretize picks a concrete value for t, forking over the alternatives.
func (p *Path) concretize(fr *frame, t *Term) uint64 {
	if t.IsConst() {
		return t.C
	}
	if t.Sort.K != SBV || t.Sort.W > 64 {
		panic(pathEnd{stUnsupported, "concretize of non-BV term"})
	}
	tt := p.tt()
	excluded := 0
	for {
		if p.pos < len(p.prefix) {
			d := p.prefix[p.pos]
			p.pos++
			p.taken = append(p.taken, d)
			k := tt.BV(t.Sort.W, d.V)
			switch d.K {
			case 'e':
				p.addPC(tt.Eq(t, k))
				return d.V
			case 'n':
				p.addPC(tt.Not(tt.Eq(t, k)))
				excluded++
				continue
			}
			panic(pathEnd{stUnsupported, fmt.Sprintf("engine: replay desync (expected value, have %c) at %s", d.K, fr.pos())})
		}
		if excluded > maxConcretize {
			panic(pathEnd{stUnsupported, fmt.Sprintf("more than %d feasible values for a shape-determining integer at %s", maxConcretize, fr.pos())})
		}
		r, cm := p.check(nil)
		if r == Unsat {
			panic(pathEnd{stInfeasible, "no more values"})
		}
		if r == Unknown {
			p.w.unknownBranches++
			panic(pathEnd{stUnknown, "solver unknown while concretising at " + fr.pos()})
		}
		v, ok := tt.Eval(t, cm.m, cm.memo)
		if !ok {
			panic(pathEnd{stUnsupported, "cannot evaluate term under model (uninterpreted) at " + fr.pos()})
		}
		kv := tt.BV(t.Sort.W, v.u)
		if r2, _ := p.check(tt.Not(tt.Eq(t, kv))); r2 != Unsat {
			alt := append(append([]Decision{}, p.taken...), Decision{'n', v.u})
			p.w.push(p.c, alt)
			p.forks++
		}
		p.taken = append(p.taken, Decision{'e', v.u})
		p.pos = len(p.taken)
		p.prefix = p.taken
		p.addPC(tt.Eq(t, tt.BV(t.Sort.W, v.u)))
		return v.u
	}
}

// ---------------------------------------------------------------- nondet

func (p *Path) fresh(name, kind string, s Sort) *Term {
	if p.names == nil {
		p.names = map[string]int{}
	}
	n := p.names[name]
	p.names[name] = n + 1
	full := name
	if n > 0 {
		full = fmt.Sprintf("%s#%d", name, n)
	}
	v := p.tt().Var(full, s)
	p.nondets = append(p.nondets, nondetRec{full, kind, v})
	return v
}

// ---------------------------------------------------------------- violations

type Violation struct {
	Harness string
	Params  []int64
	Site    string
	Msg     string
	Values  []ReplayValue
	Known   string // id of known finding, if matched
	Kind    string // "assert" | "panic" | "deadlock" ...
	Confirmed string // native replay verdict
}

type ReplayValue struct {
	Name  string `json:"name"`
	Kind  string `json:"kind"`
	Value string `json:"value"`
}

func (p *Path) modelValues(cm *cachedModel) []ReplayValue {
	var out []ReplayValue
	for _, n := range p.nondets {
		var v cval
		if cm != nil {
			v, _ = p.tt().Eval(n.T, cm.m, cm.memo)
		}
		s := ""
		switch n.Kind {
		case "bool":
			s = fmt.Sprint(v.u != 0)
		case "int", "int64":
			s = fmt.Sprint(int64(v.u))
		case "rune", "int32":
			s = fmt.Sprint(int32(v.u))
		case "float64":
			s = fmt.Sprintf("0x%016x", v.u)
		default:
			s = fmt.Sprint(v.u)
		}
		out = append(out, ReplayValue{n.Name, n.Kind, s})
	}
	return out
}

// ---------------------------------------------------------------- cases and workers

type Case struct {
	H        *HarnessSpec
	Fn       *ssa.Function
	Params   []int64
	MaxSteps int64

	mu         sync.Mutex
	counts     [8]int
	reasons    map[string]int
	violations []*Violation
	witness    *Violation // a complete path's model, replayed natively
	witnessAsserts map[string]int
	assertsHit map[string]int
	decisions  int64
	maxDepth   int
	obligations int
	discharged  int
	paths      int
	samples    []string
}

func (c *Case) String() string { return fmt.Sprintf("%s%v", c.H.Func, c.Params) }

type job struct {
	c      *Case
	prefix []Decision
}

type Engine struct {
	prog    *ssa.Program
	mu      sync.Mutex
	cond    *sync.Cond
	queue   []job
	inflight int
	done    bool
	cfg     *RunConfig
	known   []KnownFinding
	deadline time.Time
	timedOut bool
	pathsRun int64
	funcs   map[string]int64
	initFailures map[string]bool
	stats   SolverStats
	unknownBranches int
	unknownFeas     int // feasibility answers unknown, path kept (over-approximation)
	knownHit map[string]string
	intercepts map[string]int
	incHits, incMisses int
}

var noInc = os.Getenv("VERIF_NO_INC") != ""

type Worker struct {
	id      int
	e       *Engine
	tt      *TermTable
	solver  *Solver
	inc     *IncSession
	local   *[][]Decision // when set, forks go to this local queue (summaries)
	interp  *interpreter
	verbose bool
	unknownBranches int
	unknownFeas     int // feasibility answers unknown, path kept (over-approximation)
	cur     *Path
}

func (w *Worker) push(c *Case, prefix []Decision) {
	if w.local != nil {
		*w.local = append(*w.local, prefix)
		return
	}
	e := w.e
	e.mu.Lock()
	e.queue = append(e.queue, job{c, prefix})
	e.mu.Unlock()
	e.cond.Signal()
}

func (e *Engine) run(cases []*Case, nworkers int) {
	e.cond = sync.NewCond(&e.mu)
	for i := len(cases) - 1; i >= 0; i-- {
		e.queue = append(e.queue, job{cases[i], nil})
	}
	var wg sync.WaitGroup
	for i := 0; i < nworkers; i++ {
		wg.Add(1)
		go func(id int) {
			defer wg.Done()
			w := &Worker{id: id, e: e, verbose: e.cfg.Verbose}
			w.tt = NewTermTable()
			s, err := NewSolver(e.cfg.Solver, w.tt, e.cfg.QueryTimeoutMs)
			if err != nil {
				fmt.Fprintln(os.Stderr, "cannot start solver:", err)
				os.Exit(2)
			}
			w.solver = s
			if e.cfg.SolverLog != "" {
				f, _ := os.Create(fmt.Sprintf("%s.%d", e.cfg.SolverLog, id))
				s.log = f
			}
			defer s.Close()
			if !noInc {
				inc, err := NewIncSession(w.tt, 250)
				if err == nil {
					if e.cfg.SolverLog != "" {
						f, _ := os.Create(fmt.Sprintf("%s.inc.%d", e.cfg.SolverLog, id))
						inc.s.log = f
					}
					w.inc = inc
					defer inc.s.Close()
				}
			}
			w.interp = newInterpreter(e.prog, w)
			w.interp.trace = e.cfg.Trace
			for {
				e.mu.Lock()
				for len(e.queue) == 0 && e.inflight > 0 && !e.done {
					e.cond.Wait()
				}
				if e.done || (len(e.queue) == 0 && e.inflight == 0) {
					e.done = true
					e.mu.Unlock()
					e.cond.Broadcast()
					break
				}
				if time.Now().After(e.deadline) {
					e.timedOut = true
					e.done = true
					e.mu.Unlock()
					e.cond.Broadcast()
					break
				}
				j := e.queue[len(e.queue)-1]
				e.queue = e.queue[:len(e.queue)-1]
				e.inflight++
				e.mu.Unlock()

				w.runPath(j)

				e.mu.Lock()
				e.inflight--
				e.pathsRun++
				e.mu.Unlock()
				e.cond.Broadcast()
			}
			e.mu.Lock()
			for f, n := range w.interp.funcsSeen {
				e.funcs[f.String()] += n
			}
			if e.intercepts == nil {
				e.intercepts = map[string]int{}
			}
			for k, n := range w.interp.intercepts {
				e.intercepts[k] += n
			}
			for k := range w.interp.initFailures {
				e.initFailures[k] = true
			}
			if w.inc != nil {
				e.incHits += w.inc.Hits
				e.incMisses += w.inc.Misses
				e.stats.Seconds += w.inc.s.Stats.Seconds
				e.stats.ModelSeconds += w.inc.s.Stats.ModelSeconds
			}
			st := w.solver.Stats
			e.stats.Queries += st.Queries
			e.stats.Sat += st.Sat
			e.stats.UnsatN += st.UnsatN
			e.stats.UnknownN += st.UnknownN
			e.stats.CacheHits += st.CacheHits
			e.stats.Seconds += st.Seconds
			e.stats.Errors += st.Errors
			e.stats.Fallbacks += st.Fallbacks
			e.stats.FallbackDecided += st.FallbackDecided
			e.unknownBranches += w.unknownBranches
			e.unknownFeas += w.unknownFeas
			e.mu.Unlock()
		}(i)
	}
	wg.Wait()
}

func (w *Worker) runPath(j job) {
	c := j.c
	p := &Path{w: w, c: c, prefix: j.prefix, maxSteps: c.MaxSteps, asserts: map[string]int{}}
	p.models = []*cachedModel{{m: Model{}, memo: map[int]*cval{}, valid: true}}
	w.cur = p
	w.interp.p = p
	w.interp.sched = nil
	w.interp.vfs, w.interp.cwd, w.interp.pipes = nil, "", nil
	if c.H.Sched {
		mp := c.H.MaxPreempt
		if mp == 0 {
			mp = 2
		}
		w.interp.sched = newScheduler(w.interp, mp)
	}
	if w.inc != nil {
		w.inc.Begin()
	}
	status := stComplete
	reason := ""
	func() {
		defer func() {
			if r := recover(); r != nil {
				switch r := r.(type) {
				case pathEnd:
					status, reason = r.status, r.reason
				case targetPanic:
					status = stViolation
					reason = "panic: " + toString(r.v)
					w.reportPanic(p, reason)
				default:
					status = stUnsupported
					reason = "engine: " + panicText(r)
				}
			}
		}()
		args := make([]value, len(c.Params))
		for i, v := range c.Params {
			args[i] = int(v)
		}
		runMain(w.interp, c.Fn, args)
	}()
	if status == stViolation && !strings.HasPrefix(reason, "panic: ") && !strings.HasPrefix(reason, "assertion") {
		// pathEnd violation raised by the engine itself (huge allocation, deadlock)
		w.reportPanic(p, reason)
	}
	if status == stComplete && p.tainted {
		// completed, but some feasibility answer was unknown
	}
	w.interp.p = nil

	c.mu.Lock()
	c.counts[status]++
	c.paths++
	c.decisions += int64(len(p.taken))
	if len(p.taken) > c.maxDepth {
		c.maxDepth = len(p.taken)
	}
	if reason != "" && status != stAssumeFalse && status != stInfeasible {
		if c.reasons == nil {
			c.reasons = map[string]int{}
		}
		k := statusNames[status] + ": " + reason
		if len(k) > 400 {
			k = k[:400]
		}
		c.reasons[k]++
	}
	for k, n := range p.asserts {
		if c.assertsHit == nil {
			c.assertsHit = map[string]int{}
		}
		c.assertsHit[k] += n
	}
	needWitness := status == stComplete && c.witness == nil && len(p.asserts) > 0
	c.mu.Unlock()
	if needWitness {
		r, cm := p.checkQuiet()
		if r == Sat {
			c.mu.Lock()
			if c.witness == nil {
				c.witness = &Violation{Harness: c.H.Func, Params: c.Params, Values: p.modelValues(cm), Kind: "witness"}
				c.witnessAsserts = p.asserts
			}
			c.mu.Unlock()
		}
	}
	if w.verbose {
		fmt.Fprintf(os.Stderr, "[w%d] %s path depth=%d steps=%d -> %s %s\n", w.id, c, len(p.taken), p.steps, statusNames[status], reason)
	}
}

// checkQuiet obtains a model of the current pc; the solver scope may have
// been popped already, so it uses only the cache or a fresh scoped query.
func (p *Path) checkQuiet() (SatResult, *cachedModel) {
	if cm := p.cacheLookup(nil); cm != nil {
		return Sat, cm
	}
	r, m := p.w.solver.Query(p.pc, nil, p.vars())
	var cm *cachedModel
	if r == Sat {
		cm = p.addModel(m)
	}
	return r, cm
}

func (w *Worker) reportPanic(p *Path, reason string) {
	p.asserts["reached a crash site"]++
	// known findings for crash sites: Site is a substring of the reason
	var classes, ids []string
	for _, k := range w.e.known {
		if k.Status == "known" && k.Harness == p.c.H.Func && strings.Contains(reason, k.Site) && (k.Params == nil || fmt.Sprint(k.Params) == fmt.Sprint(p.c.Params)) {
			classes = append(classes, k.Class)
			ids = append(ids, k.ID)
		}
	}
	if len(classes) > 0 {
		// every input on this path crashes; it is new only if some input lies outside the known classes
		r, cm := p.checkWithRaw(p.tt().Bool(true), classes)
		if r == Unsat {
			w.e.noteKnown(ids, p.c, reason)
			return
		}
		if r == Sat {
			site := reason
			if len(site) > 200 {
				site = site[:200]
			}
			w.recordViolation(p, "panic", site, reason, cm)
			return
		}
	}
	r, cm := p.check(nil)
	if r != Sat {
		p.w.unknownBranches++
		return
	}
	site := reason
	if len(site) > 200 {
		site = site[:200]
	}
	w.recordViolation(p, "panic", site, reason, cm)
}

func (w *Worker) recordViolation(p *Path, kind, site, msg string, cm *cachedModel) {
	c := p.c
	v := &Violation{Harness: c.H.Func, Params: c.Params, Site: site, Msg: msg, Values: p.modelValues(cm), Kind: kind}
	c.mu.Lock()
	defer c.mu.Unlock()
	n := 0
	for _, o := range c.violations {
		if o.Site == site {
			n++
		}
	}
	if n < 2 {
		c.violations = append(c.violations, v)
	}
}

func runMain(i *interpreter, fn *ssa.Function, args []value) {
	if i.sched != nil {
		i.sched.runMain(i, fn, args)
		return
	}
	callSSA(i, nil, token.NoPos, fn, args, nil)
}

func sortedKeys[V any](m map[string]V) []string {
	ks := make([]string, 0, len(m))
	for k := range m {
		ks = append(ks, k)
	}
	sort.Strings(ks)
	return ks
}
