package main

// Operators with symbolic awareness, explicit run-time checks.

import (
	"bytes"
	"fmt"
	"go/token"
	"go/types"
	"os"

	"golang.org/x/tools/go/ssa"
)

func checkBad(vs ...value) {
	for _, v := range vs {
		if b, ok := v.(bad); ok {
			panic(pathEnd{stUnsupported, "use of poisoned value: " + b.why})
		}
	}
}

func isSignedType(t types.Type) bool {
	if b, ok := t.Underlying().(*types.Basic); ok {
		return b.Info()&types.IsInteger != 0 && b.Info()&types.IsUnsigned == 0
	}
	return false
}

func isIntegerType(t types.Type) bool {
	if b, ok := t.Underlying().(*types.Basic); ok {
		return b.Info()&types.IsInteger != 0
	}
	return false
}

// toBool concretises a boolean (forking on symbolic conditions).
func (fr *frame) toBool(v value) bool {
	switch v := v.(type) {
	case bool:
		return v
	case *Term:
		if fr.i.p == nil {
			panic(pathEnd{stUnsupported, "symbolic branch outside a path"})
		}
		return fr.i.p.branch(fr, v)
	case bad:
		panic(pathEnd{stUnsupported, "use of poisoned value: " + v.why})
	}
	panic(fmt.Sprintf("toBool: %T", v))
}

// toInt concretises an integer of static type t (forking over its feasible values).
func (fr *frame) toInt(v value, t types.Type) int64 {
	switch v := v.(type) {
	case *Term:
		if fr.i.p == nil {
			panic(pathEnd{stUnsupported, "symbolic integer outside a path"})
		}
		u := fr.i.p.concretize(fr, v)
		if t == nil || isSignedType(t) {
			return sext64(u, v.Sort.W)
		}
		return int64(u)
	case bad:
		panic(pathEnd{stUnsupported, "use of poisoned value: " + v.why})
	}
	return asInt64(v)
}

func (fr *frame) toIntV(x ssa.Value) int64 { return fr.toInt(fr.get(x), x.Type()) }

// asIdxTerm widens a symbolic integer of type t to a 64-bit term.
func (fr *frame) asIdxTerm(v *Term, t types.Type) *Term {
	if v.Sort.W == 64 {
		return v
	}
	if isSignedType(t) {
		return fr.tt().Mk(OSext, bvSort(64), 0, v)
	}
	return fr.tt().Mk(OZext, bvSort(64), 0, v)
}

// binop implements all arithmetic and logical binary operators.
func binop(fr *frame, op token.Token, tx, ty types.Type, x, y value) value {
	checkBad(x, y)
	switch op {
	case token.EQL:
		return eqnil(fr, tx, x, y)
	case token.NEQ:
		return fr.vNot(eqnil(fr, tx, x, y))
	}
	if isSym(x) || isSym(y) {
		return symBinop(fr, op, tx, ty, x, y)
	}
	switch op {
	case token.QUO, token.REM:
		if isIntegerType(tx) && asInt64(y) == 0 {
			rtPanic(fr, "integer divide by zero")
		}
	}
	return concreteBinop(fr, op, tx, x, y)
}

// eqnil returns the comparison x == y using the equivalence relation
// appropriate for type t.
func eqnil(fr *frame, t types.Type, x, y value) value {
	switch t.Underlying().(type) {
	case *types.Map, *types.Signature, *types.Slice:
		// Since these types don't support comparison,
		// one of the operands must be a literal nil.
		switch x := x.(type) {
		case *omap:
			return (x != nil) == (y.(*omap) != nil)
		case *ssa.Function:
			switch y := y.(type) {
			case *ssa.Function:
				return (x != nil) == (y != nil)
			case *closure:
				return false == (x == nil)
			}
		case *closure:
			if yf, ok := y.(*ssa.Function); ok {
				return (x != nil) == (yf != nil)
			}
			return false
		case []value:
			return (x != nil) == (y.([]value) != nil)
		}
		panic(fmt.Sprintf("eqnil(%s): illegal dynamic type: %T", t, x))
	}
	return equals(fr, t, x, y)
}

func unop(fr *frame, instr *ssa.UnOp, x value) value {
	checkBad(x)
	switch instr.Op {
	case token.ARROW: // receive
		return chanRecv(fr, instr, x)
	case token.MUL:
		return loadFrom(fr, mustDeref(instr.X.Type()), x)
	}
	if t, ok := x.(*Term); ok {
		return symUnop(fr, instr.Op, instr.X.Type(), t)
	}
	switch instr.Op {
	case token.SUB:
		switch x := x.(type) {
		case int:
			return -x
		case int8:
			return -x
		case int16:
			return -x
		case int32:
			return -x
		case int64:
			return -x
		case uint:
			return -x
		case uint8:
			return -x
		case uint16:
			return -x
		case uint32:
			return -x
		case uint64:
			return -x
		case uintptr:
			return -x
		case float32:
			return -x
		case float64:
			return -x
		case complex64:
			return -x
		case complex128:
			return -x
		}
	case token.NOT:
		return !x.(bool)
	case token.XOR:
		switch x := x.(type) {
		case int:
			return ^x
		case int8:
			return ^x
		case int16:
			return ^x
		case int32:
			return ^x
		case int64:
			return ^x
		case uint:
			return ^x
		case uint8:
			return ^x
		case uint16:
			return ^x
		case uint32:
			return ^x
		case uint64:
			return ^x
		case uintptr:
			return ^x
		}
	}
	panic(fmt.Sprintf("invalid unary op %s %T", instr.Op, x))
}

// ---------------------------------------------------------------- memory

func loadFrom(fr *frame, T types.Type, p value) value {
	switch p := p.(type) {
	case *value:
		if p == nil {
			rtPanic(fr, "invalid memory address or nil pointer dereference")
		}
		return load(T, p)
	case symPtr:
		return symLoad(fr, T, p)
	case bad:
		panic(pathEnd{stUnsupported, "use of poisoned value: " + p.why})
	}
	panic(fmt.Sprintf("load through %T", p))
}

func storeTo(fr *frame, T types.Type, p value, v value) {
	switch p := p.(type) {
	case *value:
		if p == nil {
			rtPanic(fr, "invalid memory address or nil pointer dereference")
		}
		store(T, p, v)
		return
	case symPtr:
		symStore(fr, T, p, v)
		return
	case bad:
		panic(pathEnd{stUnsupported, "use of poisoned value: " + p.why})
	}
	panic(fmt.Sprintf("store through %T", p))
}

func fieldAddr(fr *frame, x value, field int) value {
	switch x := x.(type) {
	case *value:
		if x == nil {
			rtPanic(fr, "invalid memory address or nil pointer dereference")
		}
		s, ok := (*x).(structure)
		if !ok {
			checkBad(*x)
			panic(fmt.Sprintf("fieldAddr of %T", *x))
		}
		return &s[field]
	case symPtr:
		np := append(append([]int{}, x.path...), field)
		return symPtr{x.base, x.idx, np}
	case bad:
		checkBad(x)
	}
	panic(fmt.Sprintf("fieldAddr: %T", x))
}

// checkIndex makes sure idx (type t) is within [0,n); forks a panic path otherwise.
// Returns either a concrete index (ok=true) or a 64-bit term.
func checkIndex(fr *frame, idx value, t types.Type, n int) (int, *Term) {
	if it, ok := idx.(*Term); ok {
		t64 := fr.asIdxTerm(it, t)
		inRange := fr.vBool(fr.tt().Mk(OUlt, sortBool, 0, t64, fr.tt().BV(64, uint64(n))))
		if !fr.toBool(inRange) {
			rtPanic(fr, fmt.Sprintf("index out of range [symbolic] with length %d", n))
		}
		if n == 1 {
			return 0, nil
		}
		return 0, t64
	}
	checkBad(idx)
	i := asInt64(idx)
	if i < 0 || i >= int64(n) {
		rtPanic(fr, fmt.Sprintf("index out of range [%d] with length %d", i, n))
	}
	return int(i), nil
}

func indexAddr(fr *frame, instr *ssa.IndexAddr, x, idx value) value {
	var cells []value
	switch x := x.(type) {
	case []value:
		cells = x
	case *value: // *array
		if x == nil {
			rtPanic(fr, "invalid memory address or nil pointer dereference")
		}
		a, ok := (*x).(array)
		if !ok {
			checkBad(*x)
		}
		cells = a
	case bad:
		checkBad(x)
	default:
		panic(fmt.Sprintf("unexpected x type in IndexAddr: %T", x))
	}
	i, t := checkIndex(fr, idx, instr.Index.Type(), len(cells))
	if t != nil {
		return symPtr{cells, t, nil}
	}
	return &cells[i]
}

func indexValue(fr *frame, instr *ssa.Index, x, idx value) value {
	switch x := x.(type) {
	case array:
		i, t := checkIndex(fr, idx, instr.Index.Type(), len(x))
		if t != nil {
			return symLoad(fr, instr.Type(), symPtr{x, t, nil})
		}
		return x[i]
	case string, sstr:
		return strIndex(fr, x, idx, instr.Index.Type())
	case bad:
		checkBad(x)
	}
	panic(fmt.Sprintf("unexpected x type in Index: %T", x))
}

func strIndex(fr *frame, x value, idx value, t types.Type) value {
	n := strLen(x)
	i, it := checkIndex(fr, idx, t, n)
	if it != nil {
		return symLoad(fr, types.Typ[types.Uint8], symPtr{strBytes(x), it, nil})
	}
	switch x := x.(type) {
	case string:
		return x[i]
	case sstr:
		return x.b[i]
	}
	panic("strIndex")
}

// slice returns x[lo:hi:max].  Any of lo, hi and max may be nil.
func slice(fr *frame, tX types.Type, x, lo, hi, max value) value {
	checkBad(x, lo, hi, max)
	var Len, Cap int
	isStr := false
	switch x := x.(type) {
	case string:
		Len = len(x)
		Cap = Len
		isStr = true
	case sstr:
		Len = len(x.b)
		Cap = Len
		isStr = true
	case absStr:
		return absSlice(fr, x, lo, hi)
	case []value:
		Len = len(x)
		Cap = cap(x)
	case *value: // *array
		if x == nil {
			rtPanic(fr, "invalid memory address or nil pointer dereference")
		}
		a := (*x).(array)
		Len = len(a)
		Cap = cap(a)
	default:
		panic(fmt.Sprintf("slice: unexpected X type: %T", x))
	}
	tt := fr.tt()
	// validity condition, decided symbolically first so that an out-of-range
	// request is one panic path rather than an enumeration.
	anySym := false
	for _, v := range []value{lo, hi, max} {
		if _, ok := v.(*Term); ok {
			anySym = true
		}
	}
	if anySym {
		term := func(v value, def int) *Term {
			switch v := v.(type) {
			case nil:
				return tt.BV(64, uint64(def))
			case *Term:
				return fr.asIdxTerm(v, types.Typ[types.Int])
			}
			return tt.BV(64, uint64(asInt64(v)))
		}
		l, h := term(lo, 0), term(hi, Len)
		m := tt.BV(64, uint64(Cap))
		if max != nil {
			m = term(max, Cap)
		}
		capT := tt.BV(64, uint64(Cap))
		valid := tt.And(
			tt.Mk(OSle, sortBool, 0, tt.BV(64, 0), l),
			tt.Mk(OSle, sortBool, 0, l, h),
			tt.Mk(OSle, sortBool, 0, h, m),
			tt.Mk(OSle, sortBool, 0, m, capT))
		if !fr.toBool(fr.vBool(valid)) {
			rtPanic(fr, fmt.Sprintf("slice bounds out of range [symbolic] with capacity %d", Cap))
		}
	}
	l := int64(0)
	if lo != nil {
		l = fr.toInt(lo, nil)
	}
	h := int64(Len)
	if hi != nil {
		h = fr.toInt(hi, nil)
	}
	m := int64(Cap)
	if max != nil {
		m = fr.toInt(max, nil)
	}
	if h < 0 || h > int64(Cap) || (isStr && h > int64(Len)) {
		rtPanic(fr, fmt.Sprintf("slice bounds out of range [:%d] with capacity %d", h, Cap))
	}
	if l < 0 || l > h {
		rtPanic(fr, fmt.Sprintf("slice bounds out of range [%d:%d]", l, h))
	}
	if m < h || m > int64(Cap) {
		rtPanic(fr, fmt.Sprintf("slice bounds out of range [::%d] with capacity %d", m, Cap))
	}
	switch x := x.(type) {
	case string:
		return x[l:h]
	case sstr:
		return mkStr(x.b[l:h:h])
	case []value:
		if x == nil {
			return x
		}
		return x[l:h:m]
	case *value: // *array
		a := (*x).(array)
		return []value(a)[l:h:m]
	}
	panic("unreachable")
}

// lookup returns x[idx] where x is a map or a string.
func lookup(fr *frame, instr *ssa.Lookup, x, idx value) value {
	checkBad(x, idx)
	switch x := x.(type) {
	case *omap:
		var v value
		ok := false
		if e := x.find(fr, idx); e != nil {
			v, ok = e.val, true
		} else {
			v = zero(instr.X.Type().Underlying().(*types.Map).Elem())
		}
		if instr.CommaOk {
			v = tuple{v, ok}
		}
		return v
	case string, sstr:
		return strIndex(fr, x, idx, instr.Index.Type())
	}
	panic(fmt.Sprintf("unexpected x type in Lookup: %T", x))
}

// typeAssert checks whether dynamic type of itf is instr.AssertedType.
func typeAssert(fr *frame, instr *ssa.TypeAssert, itf iface) value {
	var v value
	err := ""
	if itf.t == nil {
		err = fmt.Sprintf("interface conversion: interface is nil, not %s", instr.AssertedType)

	} else if idst, ok := instr.AssertedType.Underlying().(*types.Interface); ok {
		v = itf
		err = checkInterface(fr.i, idst, itf)

	} else if types.Identical(itf.t, instr.AssertedType) {
		v = itf.v // extract value

	} else {
		err = fmt.Sprintf("interface conversion: interface is %s, not %s", itf.t, instr.AssertedType)
	}

	if err != "" {
		if !instr.CommaOk {
			panic(targetPanic{iface{fr.i.runtimeErrorString, err}})
		}
		return tuple{zero(instr.AssertedType), false}
	}
	if instr.CommaOk {
		return tuple{v, true}
	}
	return v
}

type sliceData struct{ s []value }
type stringData struct{ s value }

// callBuiltin interprets a call to builtin fn with arguments args,
// returning its result.
func callBuiltin(caller *frame, callpos token.Pos, fn *ssa.Builtin, args []value) value {
	fr := caller
	switch fn.Name() {
	case "append":
		checkBad(args...)
		if len(args) == 1 {
			return args[0]
		}
		switch s := args[1].(type) {
		case string, sstr:
			// append([]byte, ...string) []byte
			arg0 := args[0].([]value)
			return append(arg0, strBytes(s)...)
		case absStr:
			panic(pathEnd{stUnsupported, "append of abstract string"})
		}
		// append([]T, ...[]T) []T
		src := args[1].([]value)
		dst := args[0].([]value)
		if len(src) == 0 {
			return dst
		}
		cp := make([]value, len(src))
		for i, v := range src {
			cp[i] = copyVal(v)
		}
		r := append(dst, cp...)
		if len(dst) > 0 && &r[0] != &dst[0] {
			// reallocated: the new array holds copies of the old elements
			// (structs and arrays are reference-like in this representation)
			for i := range dst {
				r[i] = copyVal(dst[i])
			}
		}
		return r

	case "copy": // copy([]T, []T) int or copy([]byte, string) int
		checkBad(args...)
		src := args[1]
		switch s := src.(type) {
		case string, sstr:
			src = strBytes(s)
		}
		d := args[0].([]value)
		s := src.([]value)
		n := len(d)
		if len(s) < n {
			n = len(s)
		}
		tmp := make([]value, n)
		for i := 0; i < n; i++ {
			tmp[i] = copyVal(s[i])
		}
		copy(d, tmp)
		return n

	case "close": // close(chan T)
		chanClose(fr, args[0])
		return nil

	case "delete": // delete(map[K]value, K)
		checkBad(args...)
		args[0].(*omap).delete(fr, args[1])
		return nil

	case "clear":
		switch x := args[0].(type) {
		case *omap:
			if x != nil {
				for _, e := range x.entries {
					e.deleted = true
				}
				x.entries = nil
				x.idx = map[value]*mentry{}
				x.complex = 0
			}
		case []value:
			t := fn.Type().(*types.Signature).Params().At(0).Type().Underlying().(*types.Slice).Elem()
			for i := range x {
				x[i] = zero(t)
			}
		}
		return nil

	case "print", "println": // print(any, ...)
		ln := fn.Name() == "println"
		var buf bytes.Buffer
		for i, arg := range args {
			if i > 0 && ln {
				buf.WriteRune(' ')
			}
			buf.WriteString(toString(arg))
		}
		if ln {
			buf.WriteRune('\n')
		}
		if fr.i.w.verbose {
			os.Stderr.Write(buf.Bytes())
		}
		return nil

	case "len":
		switch x := args[0].(type) {
		case string:
			return len(x)
		case sstr:
			return len(x.b)
		case absStr:
			return x.n
		case array:
			return len(x)
		case *value:
			if x == nil {
				// len of nil *array is the array length (static)
				t := fn.Type().(*types.Signature).Params().At(0).Type()
				return int(mustDeref(t).Underlying().(*types.Array).Len())
			}
			return len((*x).(array))
		case []value:
			return len(x)
		case *omap:
			return x.len()
		case *chanObj:
			return chanLen(x)
		case bad:
			checkBad(x)
		default:
			panic(fmt.Sprintf("len: illegal operand: %T", x))
		}

	case "cap":
		switch x := args[0].(type) {
		case array:
			return cap(x)
		case *value:
			return cap((*x).(array))
		case []value:
			return cap(x)
		case *chanObj:
			return chanCap(x)
		default:
			panic(fmt.Sprintf("cap: illegal operand: %T", x))
		}

	case "min", "max":
		t := fn.Type().(*types.Signature).Params().At(0).Type()
		acc := args[0]
		for _, a := range args[1:] {
			anySym := isSym(acc) || isSym(a)
			if anySym {
				op := token.LSS
				if fn.Name() == "max" {
					op = token.GTR
				}
				c := binop(fr, op, t, t, a, acc)
				acc = symIte(fr, c, a, acc, t)
			} else if fn.Name() == "min" {
				acc = min(acc, a)
			} else {
				acc = max(acc, a)
			}
		}
		return acc

	case "real":
		switch c := args[0].(type) {
		case complex64:
			return real(c)
		case complex128:
			return real(c)
		default:
			panic(fmt.Sprintf("real: illegal operand: %T", c))
		}

	case "imag":
		switch c := args[0].(type) {
		case complex64:
			return imag(c)
		case complex128:
			return imag(c)
		default:
			panic(fmt.Sprintf("imag: illegal operand: %T", c))
		}

	case "complex":
		switch f := args[0].(type) {
		case float32:
			return complex(f, args[1].(float32))
		case float64:
			return complex(f, args[1].(float64))
		default:
			panic(fmt.Sprintf("complex: illegal operand: %T", f))
		}

	case "panic":
		// ssa.Panic handles most cases; this is only for "go
		// panic" or "defer panic".
		panic(targetPanic{args[0]})

	case "recover":
		return doRecover(caller)

	case "ssa:wrapnilchk":
		recv := args[0]
		if p, ok := recv.(*value); ok && p == nil {
			recvType := args[1]
			methodName := args[2]
			rtPanic(fr, fmt.Sprintf("value method (%s).%s called using nil *%s pointer",
				recvType, methodName, recvType))
		}
		return recv

	case "ssa:deferstack":
		return &caller.defers

	// package unsafe
	case "SliceData":
		return sliceData{args[0].([]value)}
	case "StringData":
		return stringData{args[0]}
	case "String":
		n := int(fr.toInt(args[1], nil))
		switch p := args[0].(type) {
		case sliceData:
			return mkStr(append([]value{}, p.s[:n]...))
		case stringData:
			return mkStr(strBytes(p.s)[:n])
		case *value:
			if n == 0 {
				return ""
			}
			if n == 1 && p != nil {
				return mkStr([]value{*p})
			}
		}
		panic(pathEnd{stUnsupported, fmt.Sprintf("unsafe.String of %T", args[0])})
	case "Slice":
		n := int(fr.toInt(args[1], nil))
		switch p := args[0].(type) {
		case sliceData:
			return p.s[:n:n]
		case stringData:
			return append([]value{}, strBytes(p.s)[:n]...)
		case *value:
			if n == 0 {
				return []value{}
			}
		}
		panic(pathEnd{stUnsupported, fmt.Sprintf("unsafe.Slice of %T", args[0])})
	}

	panic(pathEnd{stUnsupported, "unknown built-in: " + fn.Name()})
}

func rangeIter(fr *frame, x value, t types.Type) iter {
	checkBad(x)
	switch x := x.(type) {
	case *omap:
		it := &omapIter{}
		if x != nil {
			it.snap = append(it.snap, x.entries...)
		}
		return it
	case string, sstr:
		return &stringIter{fr: fr, s: x}
	case absStr:
		panic(pathEnd{stUnsupported, "range over abstract string"})
	}
	panic(fmt.Sprintf("cannot range over %T", x))
}

// conv converts the value x of type t_src to type t_dst.
func conv(fr *frame, t_dst, t_src types.Type, x value) value {
	checkBad(x)
	if r, ok := symConv(fr, t_dst, t_src, x); ok {
		return r
	}
	return concreteConv(fr, t_dst, t_src, x)
}
