package main

// Channels, goroutines and the deterministic scheduler (§2.9 of DESIGN.md).
//
// Sequential mode (no scheduler): `go` is unsupported; channel operations that
// would block are a deadlock.

import (
	"fmt"
	"go/types"
	"sync"

	"golang.org/x/tools/go/ssa"
)

type chanObj struct {
	buf    []value
	cap    int
	closed bool
	elem   types.Type
	// rendezvous for unbuffered channels
	recvWaiting int
	sendq       []*sendReq
}

type sendReq struct {
	v     value
	taken bool
}

type goroutine struct {
	id   int
	wake chan struct{}
	done bool
	cond func() bool // nil = runnable
	what string
}

type scheduler struct {
	i           *interpreter
	gs          []*goroutine
	cur         *goroutine
	abort       *pathEnd
	killing     bool
	preempts    int
	maxPreempt  int
	single      bool
	wg          sync.WaitGroup
	aliveAtExit int
}

func makeChan(fr *frame, t types.Type, size int) value {
	if size < 0 {
		rtPanic(fr, "makechan: size out of range")
	}
	return &chanObj{cap: size, elem: t.Underlying().(*types.Chan).Elem()}
}

func chanLen(c *chanObj) int {
	if c == nil {
		return 0
	}
	return len(c.buf)
}

func chanCap(c *chanObj) int {
	if c == nil {
		return 0
	}
	return c.cap
}

// waitUntil blocks the current goroutine until cond() holds.
func waitUntil(fr *frame, what string, cond func() bool) {
	if s := fr.i.sched; s != nil && fr.i.inInit == 0 {
		s.block(fr, what, cond)
		return
	}
	if !cond() {
		panic(pathEnd{stViolation, fmt.Sprintf("deadlock: %s blocks forever (single goroutine) at %s", what, fr.callerPos())})
	}
}

func schedWake(fr *frame) {}

func schedYield(fr *frame) {
	if s := fr.i.sched; s != nil && fr.i.inInit == 0 {
		s.yield(fr, "yield")
	}
}

func spawnGoroutine(fr *frame, instr *ssa.Go, fn value, args []value) {
	if fr.i.inInit > 0 {
		// package initialisers run lazily inside some path; a goroutine started
		// there must not become part of that path's schedule
		panic(pathEnd{stUnsupported, "go statement in a package initialiser"})
	}
	if s := fr.i.sched; s != nil {
		s.spawn(fr, fn, args)
		return
	}
	panic(pathEnd{stUnsupported, "go statement in sequential mode at " + fr.pos()})
}

func chanSend(fr *frame, ch value, v value) {
	c, _ := ch.(*chanObj)
	if c == nil {
		waitUntil(fr, "send on nil channel", func() bool { return false })
	}
	v = copyVal(v)
	if s := fr.i.sched; s != nil && fr.i.inInit == 0 {
		s.yield(fr, "chan send")
	}
	if c.closed {
		panic(targetPanic{iface{fr.i.runtimeErrorString, "send on closed channel"}})
	}
	if c.cap > 0 {
		waitUntil(fr, "chan send", func() bool { return c.closed || len(c.buf) < c.cap })
		if c.closed {
			panic(targetPanic{iface{fr.i.runtimeErrorString, "send on closed channel"}})
		}
		c.buf = append(c.buf, v)
		return
	}
	// unbuffered: enqueue and wait until a receiver takes it
	req := &sendReq{v: v}
	c.sendq = append(c.sendq, req)
	waitUntil(fr, "chan send (unbuffered)", func() bool { return req.taken || c.closed })
	if !req.taken {
		panic(targetPanic{iface{fr.i.runtimeErrorString, "send on closed channel"}})
	}
}

func chanRecvReady(c *chanObj) bool {
	return c.closed || len(c.buf) > 0 || len(c.sendq) > 0
}

func chanTake(c *chanObj) (value, bool) {
	if len(c.buf) > 0 {
		v := c.buf[0]
		c.buf = c.buf[1:]
		return v, true
	}
	if len(c.sendq) > 0 {
		r := c.sendq[0]
		c.sendq = c.sendq[1:]
		r.taken = true
		return r.v, true
	}
	return zero(c.elem), false
}

func chanRecv(fr *frame, instr *ssa.UnOp, ch value) value {
	c, _ := ch.(*chanObj)
	if c == nil {
		waitUntil(fr, "receive from nil channel", func() bool { return false })
	}
	if s := fr.i.sched; s != nil && fr.i.inInit == 0 {
		s.yield(fr, "chan recv")
	}
	c.recvWaiting++
	waitUntil(fr, "chan receive", func() bool { return chanRecvReady(c) })
	c.recvWaiting--
	v, ok := chanTake(c)
	if instr.CommaOk {
		return tuple{v, ok}
	}
	return v
}

func chanClose(fr *frame, ch value) {
	c, _ := ch.(*chanObj)
	if c == nil {
		panic(targetPanic{iface{fr.i.runtimeErrorString, "close of nil channel"}})
	}
	if c.closed {
		panic(targetPanic{iface{fr.i.runtimeErrorString, "close of closed channel"}})
	}
	c.closed = true
}

func doSelect(fr *frame, instr *ssa.Select) value {
	type sc struct {
		c    *chanObj
		send bool
		v    value
	}
	var cases []sc
	for _, st := range instr.States {
		c, _ := fr.get(st.Chan).(*chanObj)
		x := sc{c: c, send: st.Dir == types.SendOnly}
		if x.send {
			x.v = copyVal(fr.get(st.Send))
		}
		cases = append(cases, x)
	}
	ready := func() []int {
		var r []int
		for i, x := range cases {
			if x.c == nil {
				continue
			}
			if x.send {
				if x.c.closed || len(x.c.buf) < x.c.cap || (x.c.cap == 0 && x.c.recvWaiting > 0) {
					r = append(r, i)
				}
			} else if chanRecvReady(x.c) {
				r = append(r, i)
			}
		}
		return r
	}
	if s := fr.i.sched; s != nil && fr.i.inInit == 0 {
		s.yield(fr, "select")
	}
	rd := ready()
	if len(rd) == 0 {
		if !instr.Blocking {
			r := tuple{-1, false}
			for _, st := range instr.States {
				if st.Dir == types.RecvOnly {
					r = append(r, zero(st.Chan.Type().Underlying().(*types.Chan).Elem()))
				}
			}
			return r
		}
		for _, x := range cases {
			if x.c != nil && !x.send {
				x.c.recvWaiting++
			}
		}
		waitUntil(fr, "select", func() bool { return len(ready()) > 0 })
		for _, x := range cases {
			if x.c != nil && !x.send {
				x.c.recvWaiting--
			}
		}
		rd = ready()
	}
	chosen := rd[0]
	if len(rd) > 1 && fr.i.p != nil && !(fr.i.sched != nil && fr.i.sched.single) {
		chosen = rd[fr.i.p.choose(fr, len(rd))]
	}
	x := cases[chosen]
	recvOk := false
	var recvVal value
	if x.send {
		if x.c.closed {
			panic(targetPanic{iface{fr.i.runtimeErrorString, "send on closed channel"}})
		}
		if x.c.cap > 0 {
			x.c.buf = append(x.c.buf, x.v)
		} else {
			req := &sendReq{v: x.v}
			x.c.sendq = append(x.c.sendq, req)
			waitUntil(fr, "select send (unbuffered)", func() bool { return req.taken })
		}
	} else {
		recvVal, recvOk = chanTake(x.c)
	}
	r := tuple{chosen, recvOk}
	for i, st := range instr.States {
		if st.Dir == types.RecvOnly {
			if i == chosen {
				r = append(r, recvVal)
			} else {
				r = append(r, zero(st.Chan.Type().Underlying().(*types.Chan).Elem()))
			}
		}
	}
	return r
}

// choose makes an n-way decision (scheduler / select), exploring all alternatives.
func (p *Path) choose(fr *frame, n int) int {
	if n <= 1 {
		return 0
	}
	if p.pos < len(p.prefix) {
		d := p.prefix[p.pos]
		if d.K != 'c' {
			panic(pathEnd{stUnsupported, fmt.Sprintf("engine: replay desync (expected choice, have %c) at %s", d.K, fr.pos())})
		}
		p.pos++
		p.taken = append(p.taken, d)
		if int(d.V) >= n {
			panic(pathEnd{stUnsupported, fmt.Sprintf("engine: replay desync (choice %d of %d) at %s pos=%d", d.V, n, fr.pos(), p.pos)})
		}
		return int(d.V)
	}
	for k := n - 1; k >= 1; k-- {
		alt := append(append([]Decision{}, p.taken...), Decision{'c', uint64(k)})
		p.w.push(p.c, alt)
	}
	p.forks += n - 1
	p.taken = append(p.taken, Decision{'c', 0})
	p.pos = len(p.taken)
	p.prefix = p.taken
	return 0
}

