package main

import (
	"encoding/json"
	"fmt"
	"os"
	"path/filepath"
	"sort"
	"strings"
)

type evidenceNums struct {
	paths       int
	decisions   int64
	obligations int
	discharged  int
	tot         [8]int
	validated   int
	confirmed   int
	spurious    int
	exhaustive  bool
	wall        float64
	loadS       float64
	exploreS    float64
	reasons     map[string]int
	broken      []string
	viols       []*Violation
}

func writeEvidence(cs *CheckSpec, cfg *RunConfig, e *Engine, cases []*Case, n evidenceNums) {
	// functions encoded: real code executed symbolically (exclude harness + vrt)
	type fc struct {
		Name  string `json:"name"`
		Calls int64  `json:"calls"`
	}
	var fns []fc
	nElv, nStd := 0, 0
	for name, c := range e.funcs {
		if strings.Contains(name, "zzvrt") {
			continue
		}
		if strings.Contains(name, modPath) {
			nElv++
			fns = append(fns, fc{name, c})
		} else {
			nStd++
		}
	}
	sort.Slice(fns, func(i, j int) bool { return fns[i].Calls > fns[j].Calls })
	if len(fns) > 60 {
		fns = fns[:60]
	}
	var samples []any
	for _, c := range cases {
		if c.witness != nil && len(samples) < 4 {
			samples = append(samples, map[string]any{
				"case": c.String(), "kind": "complete path (reachability witness, replayed natively)",
				"inputs": fmtValues(c.witness.Values), "assertions_reached": c.witnessAsserts,
			})
		}
	}
	for _, v := range n.viols {
		if len(samples) < 8 {
			samples = append(samples, map[string]any{"case": fmt.Sprintf("%s%v", v.Harness, v.Params), "kind": v.Kind, "site": v.Site, "inputs": fmtValues(v.Values), "native": v.Confirmed})
		}
	}
	if len(samples) == 0 {
		samples = append(samples, map[string]any{"note": "no complete path"})
	}
	var caseList []any
	for _, c := range cases {
		caseList = append(caseList, map[string]any{
			"case": c.String(), "paths": c.paths, "complete": c.counts[stComplete], "pruned_by_assume": c.counts[stAssumeFalse],
			"unsupported": c.counts[stUnsupported], "budget": c.counts[stBudget], "unknown": c.counts[stUnknown],
			"violations": len(c.violations), "obligations": c.obligations, "discharged": c.discharged, "max_depth": c.maxDepth,
		})
	}
	var intercepts []string
	for k, v := range e.intercepts {
		intercepts = append(intercepts, fmt.Sprintf("%s ×%d", k, v))
	}
	sort.Strings(intercepts)
	var knownLines []string
	for id, where := range e.knownHit {
		knownLines = append(knownLines, id+" @ "+where)
	}
	sort.Strings(knownLines)
	assumptions := append([]string{
		"engine symgo (own SSA symbolic executor) is trusted up to the native replays: every counterexample and one witness per case is re-run against the natively compiled real code",
		"Go map iteration order fixed to insertion order",
		"shims/stubs listed under coverage.intercepts replace body-less or out-of-scope std functions",
	}, cs.Assumptions...)
	for _, o := range cs.Outside {
		assumptions = append(assumptions, "outside the claim: "+o)
	}
	ev := map[string]any{
		"property_id": cs.Property,
		"tier":        cfg.Tier,
		"seed":        cfg.Seed,
		"level":       "model_checking",
		"wall_s":      n.wall,
		"violations":  n.confirmed,
		"assumptions": assumptions,
		"coverage": map[string]any{
			"states":                        max1(n.tot[stComplete] + n.tot[stAssumeFalse] + n.tot[stViolation]),
			"transitions":                   max1(int(n.decisions)),
			"traces_validated_against_impl": n.validated + n.confirmed,
			"samples":                       samples,
			"obligations":                   n.obligations,
			"discharged":                    n.discharged,
			"exhaustive":                    n.exhaustive,
			"explanation": "symbolic execution of the real SSA of /repo (regenerated this run); states = explored paths (each stands for the set of inputs satisfying its path condition), transitions = branch/value decisions, obligations = assertion queries pc∧¬property sent to the SMT solver, discharged = those answered unsat",
			"technique":          "bounded symbolic execution of go/ssa + SMT (" + cfg.Solver + ")",
			"bounds":             cs.Bounds[cfg.Tier],
			"units":              cs.Units,
			"cases":              caseList,
			"paths":              map[string]int{"total": n.paths, "complete": n.tot[stComplete], "pruned_by_assume": n.tot[stAssumeFalse], "violation": n.tot[stViolation], "unsupported": n.tot[stUnsupported], "budget": n.tot[stBudget], "unknown": n.tot[stUnknown], "infeasible": n.tot[stInfeasible], "unwound_out": n.tot[stUnwound]},
			"not_covered_reasons": n.reasons,
			"timed_out":          e.timedOut,
			"functions_encoded":  map[string]any{"elvish_functions": nElv, "std_functions": nStd, "top": fns},
			"intercepts":         intercepts,
			"init_failures":      len(e.initFailures),
			"solver":             map[string]any{"name": cfg.Solver, "queries": e.stats.Queries + e.incHits + e.incMisses, "oneshot_queries": e.stats.Queries, "sat": e.stats.Sat, "unsat": e.stats.UnsatN, "unknown": e.stats.UnknownN, "cache_hits": e.stats.CacheHits, "seconds": e.stats.Seconds, "errors": e.stats.Errors, "unknown_branches": e.unknownBranches, "unknown_feasibility_kept_both_ways": e.unknownFeas, "incremental_session_decided": e.incHits, "incremental_session_unknown": e.incMisses, "cvc5_fallback_queries": e.stats.Fallbacks, "cvc5_fallback_decided": e.stats.FallbackDecided, "query_timeout_ms": cfg.QueryTimeoutMs},
			"timing_s":           map[string]float64{"load_and_ssa": n.loadS, "explore": n.exploreS},
			"native_replays":     map[string]int{"witnesses_reproduced": n.validated, "violations_reproduced": n.confirmed, "spurious": n.spurious},
			"known_findings_hit": knownLines,
			"broken":             n.broken,
		},
	}
	b, _ := json.MarshalIndent(ev, "", " ")
	os.MkdirAll(filepath.Join(verifDir, "evidence"), 0o755)
	os.WriteFile(filepath.Join(verifDir, "evidence", cs.Property+".json"), b, 0o644)
}

func max1(n int) int {
	if n < 1 {
		return 1
	}
	return n
}
