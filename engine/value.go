// Copyright 2013 The Go Authors. All rights reserved.
// Use of this source code is governed by a BSD-style
// license that can be found in the LICENSE file.
//
// Derived from golang.org/x/tools/go/ssa/interp; extended with symbolic
// scalars (*Term), symbolic strings (sstr), abstract strings (absStr),
// ordered deterministic maps (omap) and poisoned values (bad).

package main

// Values
//
// All interpreter values are "boxed" in the empty interface, value.
// The range of possible dynamic types within value are:
//
// - bool, numbers, string: concrete scalars, as in ssa/interp
// - *Term: a symbolic scalar (Bool, BV(n) for integers, FP64 for float64)
// - sstr: string with (some) symbolic bytes, concrete length
// - absStr: string of symbolic length and opaque content
// - *omap: maps (insertion ordered)
// - *chanObj: channels (engine scheduler)
// - []value --- slices
// - iface --- interfaces.
// - structure --- structs.
// - array --- arrays.
// - *value --- pointers.
// - symPtr --- pointer to base[idx] (+ field path) with symbolic idx
// - *ssa.Function, *ssa.Builtin, *closure --- functions.
// - tuple, iter, bad, rtype, **deferred

import (
	"bytes"
	"fmt"
	"go/types"
	"unsafe"

	"golang.org/x/tools/go/ssa"
)

type value interface{}

type tuple []value

type array []value

type iface struct {
	t types.Type // never an "untyped" type
	v value
}

type structure []value

// sstr is a string of concrete length whose bytes may be symbolic
// (each element is uint8 or *Term of sort BV8).
type sstr struct{ b []value }

// absStr is a string with symbolic length and unknown content.
type absStr struct {
	n  value // int or *Term (BV64)
	id int
}

// symPtr is the address base[idx].path with symbolic idx.
type symPtr struct {
	base []value
	idx  *Term // BV64
	path []int
}

// For map, array, *array, slice, string or channel.
type iter interface {
	// next returns a Tuple (key, value, ok).
	next() tuple
}

type closure struct {
	Fn  *ssa.Function
	Env []value
}

type bad struct{ why string }

type rtype struct {
	t types.Type
}

// nil-tolerant variant of types.Identical.
func sameType(x, y types.Type) bool {
	if x == nil {
		return y == nil
	}
	return y != nil && types.Identical(x, y)
}

func isSym(v value) bool {
	switch v.(type) {
	case *Term, sstr, absStr:
		return true
	}
	return false
}

// mkStr normalises a byte sequence into string or sstr.
func mkStr(b []value) value {
	conc := true
	for _, x := range b {
		if _, ok := x.(uint8); !ok {
			conc = false
			break
		}
	}
	if conc {
		bs := make([]byte, len(b))
		for i, x := range b {
			bs[i] = x.(uint8)
		}
		return string(bs)
	}
	return sstr{b}
}

func strBytes(v value) []value {
	switch v := v.(type) {
	case string:
		r := make([]value, len(v))
		for i := 0; i < len(v); i++ {
			r[i] = v[i]
		}
		return r
	case sstr:
		return v.b
	}
	panic(fmt.Sprintf("strBytes: %T", v))
}

// boolAnd / boolNot over bool|*Term
func (fr *frame) vAnd(a, b value) value {
	if ab, ok := a.(bool); ok {
		if !ab {
			return false
		}
		return b
	}
	if bb, ok := b.(bool); ok {
		if !bb {
			return false
		}
		return a
	}
	return fr.tt().And(a.(*Term), b.(*Term))
}

func (fr *frame) vOr(a, b value) value {
	if ab, ok := a.(bool); ok {
		if ab {
			return true
		}
		return b
	}
	if bb, ok := b.(bool); ok {
		if bb {
			return true
		}
		return a
	}
	return fr.vBool(fr.tt().Or(a.(*Term), b.(*Term)))
}

func (fr *frame) vNot(a value) value {
	if ab, ok := a.(bool); ok {
		return !ab
	}
	return fr.vBool(fr.tt().Not(a.(*Term)))
}

func (fr *frame) vBool(t *Term) value {
	if t.IsConst() {
		return t.C != 0
	}
	return t
}

func (fr *frame) tt() *TermTable { return fr.i.w.tt }

// equals returns x == y per Go's equivalence for type t: bool or *Term.
func equals(fr *frame, t types.Type, x, y value) value {
	if b, ok := x.(bad); ok {
		panic(pathEnd{stUnsupported, "use of poisoned value: " + b.why})
	}
	if b, ok := y.(bad); ok {
		panic(pathEnd{stUnsupported, "use of poisoned value: " + b.why})
	}
	if isSym(x) || isSym(y) {
		return symEquals(fr, x, y)
	}
	switch x := x.(type) {
	case bool:
		return x == y.(bool)
	case int:
		return x == y.(int)
	case int8:
		return x == y.(int8)
	case int16:
		return x == y.(int16)
	case int32:
		return x == y.(int32)
	case int64:
		return x == y.(int64)
	case uint:
		return x == y.(uint)
	case uint8:
		return x == y.(uint8)
	case uint16:
		return x == y.(uint16)
	case uint32:
		return x == y.(uint32)
	case uint64:
		return x == y.(uint64)
	case uintptr:
		return x == y.(uintptr)
	case float32:
		return x == y.(float32)
	case float64:
		return x == y.(float64)
	case complex64:
		return x == y.(complex64)
	case complex128:
		return x == y.(complex128)
	case string:
		return x == y.(string)
	case *value:
		yp, ok := y.(*value)
		return ok && x == yp
	case symPtr:
		panic(pathEnd{stUnsupported, "comparison of symbolic pointer"})
	case unsafe.Pointer:
		return x == y.(unsafe.Pointer)
	case *chanObj:
		return x == y.(*chanObj)
	case structure:
		ys := y.(structure)
		tStruct := t.Underlying().(*types.Struct)
		var acc value = true
		for i, n := 0, tStruct.NumFields(); i < n; i++ {
			if f := tStruct.Field(i); f.Name() != "_" {
				acc = fr.vAnd(acc, equals(fr, f.Type(), x[i], ys[i]))
				if acc == false {
					return false
				}
			}
		}
		return acc
	case array:
		ya := y.(array)
		tElt := t.Underlying().(*types.Array).Elem()
		var acc value = true
		for i, xi := range x {
			acc = fr.vAnd(acc, equals(fr, tElt, xi, ya[i]))
			if acc == false {
				return false
			}
		}
		return acc
	case iface:
		yi := y.(iface)
		if !sameType(x.t, yi.t) {
			return false
		}
		if x.t == nil {
			return true
		}
		if xr, ok := x.v.(rtype); ok {
			yr, ok := yi.v.(rtype)
			return ok && types.Identical(xr.t, yr.t)
		}
		if !types.Comparable(x.t) {
			panic(targetPanic{iface{fr.i.runtimeErrorString, "runtime error: comparing uncomparable type " + x.t.String()}})
		}
		return equals(fr, x.t, x.v, yi.v)
	case rtype:
		return types.Identical(x.t, y.(rtype).t)
	case *omap:
		return x == y.(*omap)
	}

	// Since map, func and slice don't support comparison, this
	// case is only reachable if one of x or y is literally nil
	// (handled in eqnil) or via interface{} values.
	panic(targetPanic{iface{fr.i.runtimeErrorString, fmt.Sprintf("runtime error: comparing uncomparable type %s", t)}})
}

// load returns the value of type T in *addr.
func load(T types.Type, addr *value) value {
	switch T := T.Underlying().(type) {
	case *types.Struct:
		v, ok := (*addr).(structure)
		if !ok {
			return *addr // bad
		}
		a := make(structure, len(v))
		for i := range a {
			a[i] = load(T.Field(i).Type(), &v[i])
		}
		return a
	case *types.Array:
		v, ok := (*addr).(array)
		if !ok {
			return *addr
		}
		a := make(array, len(v))
		for i := range a {
			a[i] = load(T.Elem(), &v[i])
		}
		return a
	default:
		return *addr
	}
}

// copyVal makes an unaliased copy of aggregates (struct/array values).
func copyVal(v value) value {
	switch v := v.(type) {
	case structure:
		a := make(structure, len(v))
		for i := range a {
			a[i] = copyVal(v[i])
		}
		return a
	case array:
		a := make(array, len(v))
		for i := range a {
			a[i] = copyVal(v[i])
		}
		return a
	}
	return v
}

// store stores value v of type T into *addr.
func store(T types.Type, addr *value, v value) {
	switch T := T.Underlying().(type) {
	case *types.Struct:
		lhs, ok1 := (*addr).(structure)
		rhs, ok2 := v.(structure)
		if !ok1 || !ok2 {
			*addr = copyVal(v)
			return
		}
		for i := range lhs {
			store(T.Field(i).Type(), &lhs[i], rhs[i])
		}
	case *types.Array:
		lhs, ok1 := (*addr).(array)
		rhs, ok2 := v.(array)
		if !ok1 || !ok2 {
			*addr = copyVal(v)
			return
		}
		for i := range lhs {
			store(T.Elem(), &lhs[i], rhs[i])
		}
	default:
		*addr = v
	}
}

// Prints in the style of built-in println.
func writeValue(buf *bytes.Buffer, v value, depth int) {
	if depth > 6 {
		buf.WriteString("…")
		return
	}
	switch v := v.(type) {
	case nil, bool, int, int8, int16, int32, int64, uint, uint8, uint16, uint32, uint64, uintptr, float32, float64, complex64, complex128:
		fmt.Fprintf(buf, "%v", v)
	case string:
		fmt.Fprintf(buf, "%q", v)
	case *Term:
		s := v.String()
		if len(s) > 80 {
			s = s[:80] + "…"
		}
		buf.WriteString("sym:" + s)
	case sstr:
		fmt.Fprintf(buf, "sstr[%d]", len(v.b))
	case absStr:
		buf.WriteString("absStr")
	case bad:
		buf.WriteString("bad(" + v.why + ")")
	case *omap:
		buf.WriteString("map[")
		if v != nil {
			for i, e := range v.entries {
				if i > 0 {
					buf.WriteString(" ")
				}
				writeValue(buf, e.key, depth+1)
				buf.WriteString(":")
				writeValue(buf, e.val, depth+1)
			}
		}
		buf.WriteString("]")
	case *chanObj:
		fmt.Fprintf(buf, "chan%p", v)
	case *value:
		if v == nil {
			buf.WriteString("<nil>")
		} else {
			fmt.Fprintf(buf, "&")
			writeValue(buf, *v, depth+1)
		}
	case iface:
		if v.t == nil {
			buf.WriteString("nil")
			return
		}
		fmt.Fprintf(buf, "(%s, ", v.t)
		writeValue(buf, v.v, depth+1)
		buf.WriteString(")")
	case structure:
		buf.WriteString("{")
		for i, e := range v {
			if i > 0 {
				buf.WriteString(" ")
			}
			writeValue(buf, e, depth+1)
		}
		buf.WriteString("}")
	case array:
		buf.WriteString("[")
		for i, e := range v {
			if i > 0 {
				buf.WriteString(" ")
			}
			if i > 16 {
				buf.WriteString("…")
				break
			}
			writeValue(buf, e, depth+1)
		}
		buf.WriteString("]")
	case []value:
		buf.WriteString("[")
		for i, e := range v {
			if i > 0 {
				buf.WriteString(" ")
			}
			if i > 16 {
				buf.WriteString("…")
				break
			}
			writeValue(buf, e, depth+1)
		}
		buf.WriteString("]")
	case *ssa.Function, *ssa.Builtin, *closure:
		fmt.Fprintf(buf, "func%p", v)
	case rtype:
		buf.WriteString(v.t.String())
	case tuple:
		buf.WriteString("(")
		for i, e := range v {
			if i > 0 {
				buf.WriteString(", ")
			}
			writeValue(buf, e, depth+1)
		}
		buf.WriteString(")")
	default:
		fmt.Fprintf(buf, "<%T>", v)
	}
}

// Implements printing of Go values in the style of built-in println.
func toString(v value) string {
	var b bytes.Buffer
	writeValue(&b, v, 0)
	return b.String()
}

// ------------------------------------------------------------------------
// Maps: insertion-ordered association lists with a fast index for simple
// concrete keys. Iteration order = insertion order (deterministic replays).

type mentry struct {
	key, val value
	deleted  bool
}

type omap struct {
	keyType types.Type
	entries []*mentry
	idx     map[value]*mentry // only simple concrete keys
	complex int               // number of live entries not in idx
}

func makeMap(kt types.Type, reserve int64) value {
	return &omap{keyType: kt, idx: map[value]*mentry{}}
}

func simpleKey(k value) bool {
	switch k.(type) {
	case bool, int, int8, int16, int32, int64, uint, uint8, uint16, uint32, uint64, uintptr, float32, float64, string, *value, *chanObj:
		return true
	}
	return false
}

// find returns the entry whose key equals k, deciding symbolic equalities by
// forking.
func (m *omap) find(fr *frame, k value) *mentry {
	if m == nil {
		return nil
	}
	if simpleKey(k) {
		if f, ok := k.(float64); ok && f != f {
			return nil
		}
		if e, ok := m.idx[k]; ok {
			return e
		}
		if m.complex == 0 {
			return nil
		}
	}
	for _, e := range m.entries {
		if e.deleted {
			continue
		}
		if simpleKey(k) && simpleKey(e.key) {
			continue // would have been found in idx
		}
		if fr.toBool(equals(fr, m.keyType, k, e.key)) {
			return e
		}
	}
	return nil
}

func (m *omap) insert(fr *frame, k, v value) {
	if e := m.find(fr, k); e != nil {
		e.val = v
		return
	}
	e := &mentry{key: k, val: v}
	m.entries = append(m.entries, e)
	if simpleKey(k) {
		if f, ok := k.(float64); ok && f != f {
			m.complex++
			return
		}
		m.idx[k] = e
	} else {
		m.complex++
	}
}

func (m *omap) delete(fr *frame, k value) {
	if m == nil {
		return
	}
	e := m.find(fr, k)
	if e == nil {
		return
	}
	e.deleted = true
	if simpleKey(e.key) {
		delete(m.idx, e.key)
	} else {
		m.complex--
	}
	for i, x := range m.entries {
		if x == e {
			m.entries = append(m.entries[:i:i], m.entries[i+1:]...)
			break
		}
	}
}

func (m *omap) len() int {
	if m == nil {
		return 0
	}
	return len(m.entries)
}

type omapIter struct {
	snap []*mentry
	i    int
}

func (it *omapIter) next() tuple {
	for it.i < len(it.snap) {
		e := it.snap[it.i]
		it.i++
		if !e.deleted {
			return tuple{true, e.key, copyVal(e.val)}
		}
	}
	return tuple{false, nil, nil}
}

// ------------------------------------------------------------------------
// String iteration: decodes UTF-8 by running the real utf8.DecodeRuneInString
// on the (possibly symbolic) tail.

type stringIter struct {
	fr *frame
	s  value // string or sstr
	i  int
}

func (it *stringIter) next() tuple {
	n := strLen(it.s)
	if it.i >= n {
		return tuple{false, nil, nil}
	}
	pos := it.i
	if s, ok := it.s.(string); ok {
		for j, r := range s[pos:] {
			_ = j
			sz := len(string(r))
			if r == 0xFFFD {
				// could be an invalid byte: width 1, or a real U+FFFD: width 3
				sz = 1
				if len(s) >= pos+3 && s[pos:pos+3] == "�" {
					sz = 3
				}
			}
			it.i += sz
			return tuple{true, pos, r}
		}
	}
	b := strBytes(it.s)
	r, sz := decodeRuneSym(it.fr, mkStr(b[pos:]))
	it.i += sz
	return tuple{true, pos, r}
}

func strLen(s value) int {
	switch s := s.(type) {
	case string:
		return len(s)
	case sstr:
		return len(s.b)
	}
	panic(fmt.Sprintf("strLen: %T", s))
}
