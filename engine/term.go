package main

// SMT terms: hash-consed DAG with constant folding, an evaluator (used for
// folding, for the counterexample cache and for producing replay values) and
// an SMT-LIB2 printer.

import (
	"fmt"
	"math"
	"math/big"
	"math/bits"
	"strings"
)

type SortKind uint8

const (
	SBool SortKind = iota
	SBV
	SFP64
	SInt
	SReal
)

type Sort struct {
	K SortKind
	W int
}

var (
	sortBool = Sort{SBool, 0}
	sortFP64 = Sort{SFP64, 0}
	sortInt  = Sort{SInt, 0}
	sortReal = Sort{SReal, 0}
)

func bvSort(w int) Sort { return Sort{SBV, w} }

func (s Sort) String() string {
	switch s.K {
	case SBool:
		return "Bool"
	case SBV:
		return fmt.Sprintf("(_ BitVec %d)", s.W)
	case SFP64:
		return "(_ FloatingPoint 11 53)"
	case SInt:
		return "Int"
	case SReal:
		return "Real"
	}
	return "?"
}

type Op uint8

const (
	OConst Op = iota
	OVar
	ONot
	OAnd
	OOr
	OIte
	OEq
	// bit-vectors
	OAdd
	OSub
	OMul
	OUDiv
	OURem
	OSDiv
	OSRem
	OBAnd
	OBOr
	OBXor
	OBNot
	ONeg
	OShl
	OLShr
	OAShr
	OUlt
	OUle
	OSlt
	OSle
	OConcat
	OExtract // C = hi<<16|lo
	OZext    // to Sort.W
	OSext
	// floating point (Float64)
	OFAdd
	OFSub
	OFMul
	OFDiv
	OFNeg
	OFAbs
	OFLt
	OFLe
	OFEq
	OFIsNaN
	OFIsInf
	OFRound  // C = mode: 0 RNE(to even) 1 RNA(half away) 2 RTP(ceil) 3 RTN(floor) 4 RTZ(trunc)
	OFFromS  // signed bv -> fp (RNE)
	OFFromU  // unsigned bv -> fp (RNE)
	OFToS    // fp -> signed bv (RTZ), Sort.W
	OFToU    // fp -> unsigned bv (RTZ)
	OFBits   // fp -> bv64 (ieee bits)
	OFOfBits // bv64 -> fp
	OFToReal // fp -> Real
	// Int / Real
	OIAdd
	OISub
	OIMul
	OIDiv // Int div (euclidean in SMT-LIB)
	OIMod
	ORDiv // Real /
	OILt
	OILe
	OINeg
	OToReal
	OToInt  // floor
	OIsInt  // Real -> Bool
	OUF     // uninterpreted function, Name
	OBv2Int // unsigned
	OInt2Bv
)

var opNames = map[Op]string{
	ONot: "not", OAnd: "and", OOr: "or", OIte: "ite", OEq: "=",
	OAdd: "bvadd", OSub: "bvsub", OMul: "bvmul", OUDiv: "bvudiv", OURem: "bvurem", OSDiv: "bvsdiv", OSRem: "bvsrem",
	OBAnd: "bvand", OBOr: "bvor", OBXor: "bvxor", OBNot: "bvnot", ONeg: "bvneg", OShl: "bvshl", OLShr: "bvlshr", OAShr: "bvashr",
	OUlt: "bvult", OUle: "bvule", OSlt: "bvslt", OSle: "bvsle", OConcat: "concat",
	OFAdd: "fp.add RNE", OFSub: "fp.sub RNE", OFMul: "fp.mul RNE", OFDiv: "fp.div RNE", OFNeg: "fp.neg", OFAbs: "fp.abs",
	OFLt: "fp.lt", OFLe: "fp.leq", OFEq: "fp.eq", OFIsNaN: "fp.isNaN", OFIsInf: "fp.isInfinite",
	OFBits: "fp.to_ieee_bv", OFOfBits: "(_ to_fp 11 53)", OFToReal: "fp.to_real",
	OIAdd: "+", OISub: "-", OIMul: "*", OIDiv: "div", OIMod: "mod", ORDiv: "/", OILt: "<", OILe: "<=", OINeg: "-",
	OToReal: "to_real", OToInt: "to_int", OIsInt: "is_int", OBv2Int: "bv2nat",
}

type Term struct {
	Op   Op
	Sort Sort
	A    []*Term
	C    uint64
	Big  *big.Int
	Name string
	id   int
}

func (t *Term) IsConst() bool { return t.Op == OConst }

// TermTable hash-conses terms. One per worker (not thread-safe).
type TermTable struct {
	m    map[string]*Term
	next int
	vars []*Term
	ufs  map[string]*Term // name -> sample term (for declaration)
}

func NewTermTable() *TermTable {
	return &TermTable{m: map[string]*Term{}, ufs: map[string]*Term{}}
}

func (tt *TermTable) intern(t *Term) *Term {
	var sb strings.Builder
	fmt.Fprintf(&sb, "%d|%d.%d|%d|", t.Op, t.Sort.K, t.Sort.W, t.C)
	if t.Big != nil {
		sb.WriteString(t.Big.String())
	}
	sb.WriteByte('|')
	sb.WriteString(t.Name)
	for _, a := range t.A {
		fmt.Fprintf(&sb, "|%d", a.id)
	}
	k := sb.String()
	if old, ok := tt.m[k]; ok {
		return old
	}
	tt.next++
	t.id = tt.next
	tt.m[k] = t
	if t.Op == OVar {
		tt.vars = append(tt.vars, t)
	}
	if t.Op == OUF {
		if _, ok := tt.ufs[t.Name]; !ok {
			tt.ufs[t.Name] = t
		}
	}
	return t
}

func mask(w int) uint64 {
	if w >= 64 {
		return ^uint64(0)
	}
	return (uint64(1) << uint(w)) - 1
}

func bigMask(w int) *big.Int {
	m := new(big.Int).Lsh(big.NewInt(1), uint(w))
	return m.Sub(m, big.NewInt(1))
}

func (tt *TermTable) Bool(b bool) *Term {
	c := uint64(0)
	if b {
		c = 1
	}
	return tt.intern(&Term{Op: OConst, Sort: sortBool, C: c})
}

func (tt *TermTable) BV(w int, v uint64) *Term {
	if w > 64 {
		return tt.BVBig(w, new(big.Int).SetUint64(v))
	}
	return tt.intern(&Term{Op: OConst, Sort: bvSort(w), C: v & mask(w)})
}

func (tt *TermTable) BVBig(w int, v *big.Int) *Term {
	v = new(big.Int).And(v, bigMask(w))
	if w <= 64 {
		return tt.BV(w, v.Uint64())
	}
	return tt.intern(&Term{Op: OConst, Sort: bvSort(w), Big: v})
}

func (tt *TermTable) FP(f float64) *Term {
	return tt.intern(&Term{Op: OConst, Sort: sortFP64, C: math.Float64bits(f)})
}

func (tt *TermTable) IntC(v *big.Int) *Term {
	return tt.intern(&Term{Op: OConst, Sort: sortInt, Big: new(big.Int).Set(v)})
}

func (tt *TermTable) RealC(v *big.Rat) *Term {
	// stored as Name (exact rational text)
	return tt.intern(&Term{Op: OConst, Sort: sortReal, Name: v.RatString()})
}

func (tt *TermTable) Var(name string, s Sort) *Term {
	return tt.intern(&Term{Op: OVar, Sort: s, Name: name})
}

func (tt *TermTable) UF(name string, s Sort, args ...*Term) *Term {
	return tt.intern(&Term{Op: OUF, Sort: s, Name: name, A: args})
}

// cval is a concrete value of a term under a model.
type cval struct {
	u   uint64   // Bool (0/1), BV<=64, FP64 bits
	big *big.Int // BV>64, Int
	rat *big.Rat // Real
}

func (t *Term) constVal() cval {
	if t.Sort.K == SReal {
		r, _ := new(big.Rat).SetString(t.Name)
		return cval{rat: r}
	}
	return cval{u: t.C, big: t.Big}
}

func (tt *TermTable) fromVal(s Sort, v cval) *Term {
	switch s.K {
	case SBool:
		return tt.Bool(v.u != 0)
	case SBV:
		if s.W > 64 {
			return tt.BVBig(s.W, v.big)
		}
		return tt.BV(s.W, v.u)
	case SFP64:
		return tt.intern(&Term{Op: OConst, Sort: sortFP64, C: v.u})
	case SInt:
		return tt.IntC(v.big)
	case SReal:
		return tt.RealC(v.rat)
	}
	panic("fromVal")
}

// Mk builds a term with simplification.
func (tt *TermTable) Mk(op Op, s Sort, c uint64, args ...*Term) *Term {
	// constant folding
	allc := len(args) > 0
	for _, a := range args {
		if a == nil {
			panic(fmt.Sprintf("nil arg in Mk(%v)", opNames[op]))
		}
		if !a.IsConst() {
			allc = false
		}
	}
	if allc && op != OUF {
		vals := make([]cval, len(args))
		for i, a := range args {
			vals[i] = a.constVal()
		}
		if v, ok := evalOp(op, s, c, args, vals); ok {
			return tt.fromVal(s, v)
		}
	}
	switch op {
	case ONot:
		a := args[0]
		if a.Op == ONot {
			return a.A[0]
		}
	case OAnd, OOr:
		unit := op == OAnd // identity: true for and, false for or
		var out []*Term
		seen := map[int]bool{}
		var add func(a *Term) bool
		add = func(a *Term) bool {
			if a.IsConst() {
				if (a.C != 0) == unit {
					return true
				}
				return false // absorbing
			}
			if a.Op == op {
				for _, b := range a.A {
					if !add(b) {
						return false
					}
				}
				return true
			}
			if seen[a.id] {
				return true
			}
			seen[a.id] = true
			out = append(out, a)
			return true
		}
		for _, a := range args {
			if !add(a) {
				return tt.Bool(!unit)
			}
		}
		for _, a := range out {
			if a.Op == ONot && seen[a.A[0].id] {
				return tt.Bool(!unit)
			}
		}
		if len(out) == 0 {
			return tt.Bool(unit)
		}
		if len(out) == 1 {
			return out[0]
		}
		args = out
	case OIte:
		cnd, a, b := args[0], args[1], args[2]
		if cnd.IsConst() {
			if cnd.C != 0 {
				return a
			}
			return b
		}
		if a == b {
			return a
		}
		if s.K == SBool && a.IsConst() && b.IsConst() {
			if a.C != 0 && b.C == 0 {
				return cnd
			}
			if a.C == 0 && b.C != 0 {
				return tt.Mk(ONot, sortBool, 0, cnd)
			}
		}
		if cnd.Op == ONot {
			return tt.Mk(OIte, s, 0, cnd.A[0], b, a)
		}
	case OEq:
		a, b := args[0], args[1]
		if a == b && a.Sort.K != SFP64 {
			return tt.Bool(true)
		}
		if a.Sort.K == SBool {
			if a.IsConst() {
				a, b = b, a
			}
			if b.IsConst() {
				if b.C != 0 {
					return a
				}
				return tt.Mk(ONot, sortBool, 0, a)
			}
		}
		// eq(ite(c, k1, k2), k) with constants
		if b.IsConst() && a.Op == OIte && a.A[1].IsConst() && a.A[2].IsConst() {
			e1 := tt.Mk(OEq, sortBool, 0, a.A[1], b)
			e2 := tt.Mk(OEq, sortBool, 0, a.A[2], b)
			return tt.Mk(OIte, sortBool, 0, a.A[0], e1, e2)
		}
		// eq(zext(x), const): compare at the narrow width when const fits
		if b.IsConst() && a.Op == OZext && a.Sort.W <= 64 {
			w := a.A[0].Sort.W
			if b.C&^mask(w) != 0 {
				return tt.Bool(false)
			}
			return tt.Mk(OEq, sortBool, 0, a.A[0], tt.BV(w, b.C))
		}
		if a.id > b.id {
			args = []*Term{b, a}
		}
	case OAdd, OBOr, OBXor:
		if isZero(args[0]) {
			return args[1]
		}
		if isZero(args[1]) {
			return args[0]
		}
		if op == OAdd && args[0].IsConst() {
			args = []*Term{args[1], args[0]}
		}
		// (x + c1) + c2
		if op == OAdd && args[1].IsConst() && args[0].Op == OAdd && args[0].A[1].IsConst() && s.W <= 64 {
			return tt.Mk(OAdd, s, 0, args[0].A[0], tt.BV(s.W, args[0].A[1].C+args[1].C))
		}
	case OSub:
		if isZero(args[1]) {
			return args[0]
		}
		if args[0] == args[1] {
			return tt.zeroBV(s.W)
		}
		if args[1].IsConst() && s.W <= 64 {
			return tt.Mk(OAdd, s, 0, args[0], tt.BV(s.W, -args[1].C))
		}
	case OShl, OLShr, OAShr:
		if isZero(args[1]) {
			return args[0]
		}
		if isZero(args[0]) {
			return args[0]
		}
	case OBAnd:
		if isZero(args[0]) {
			return args[0]
		}
		if isZero(args[1]) {
			return args[1]
		}
		if args[0] == args[1] {
			return args[0]
		}
		if isAllOnes(args[1]) {
			return args[0]
		}
		if isAllOnes(args[0]) {
			return args[1]
		}
	case OMul:
		if isZero(args[0]) {
			return args[0]
		}
		if isZero(args[1]) {
			return args[1]
		}
		if isOne(args[0]) {
			return args[1]
		}
		if isOne(args[1]) {
			return args[0]
		}
	case OZext, OSext:
		if args[0].Sort.W == s.W {
			return args[0]
		}
		if op == OZext && args[0].Op == OZext {
			return tt.Mk(OZext, s, 0, args[0].A[0])
		}
	case OExtract:
		hi, lo := int(c>>16), int(c&0xffff)
		a := args[0]
		if lo == 0 && hi == a.Sort.W-1 {
			return a
		}
		// extract low bits of zext/sext(x)
		if (a.Op == OZext || a.Op == OSext) && lo == 0 {
			w := a.A[0].Sort.W
			if hi+1 == w {
				return a.A[0]
			}
			if hi+1 < w {
				return tt.Mk(OExtract, s, c, a.A[0])
			}
			if a.Op == OZext {
				return tt.Mk(OZext, s, 0, a.A[0])
			}
			return tt.Mk(OSext, s, 0, a.A[0])
		}
	case OUlt:
		if args[0] == args[1] {
			return tt.Bool(false)
		}
		if isZero(args[1]) {
			return tt.Bool(false)
		}
		if r, ok := tt.cmpByRange(args[0], args[1], true); ok {
			return r
		}
	case OUle:
		if args[0] == args[1] {
			return tt.Bool(true)
		}
		if isZero(args[0]) {
			return tt.Bool(true)
		}
		if r, ok := tt.cmpByRange(args[0], args[1], false); ok {
			return r
		}
	case OSlt:
		if args[0] == args[1] {
			return tt.Bool(false)
		}
		if r, ok := tt.scmpByRange(args[0], args[1], true); ok {
			return r
		}
	case OSle:
		if args[0] == args[1] {
			return tt.Bool(true)
		}
		if r, ok := tt.scmpByRange(args[0], args[1], false); ok {
			return r
		}
	case OFBits:
		if args[0].Op == OFOfBits {
			return args[0].A[0]
		}
	case OFOfBits:
		if args[0].Op == OFBits {
			return args[0].A[0]
		}
	}
	return tt.intern(&Term{Op: op, Sort: s, C: c, A: args})
}

// umax returns an upper bound on the unsigned value of a BV term (width<=64).
func umax(t *Term) uint64 {
	if t.Sort.K != SBV || t.Sort.W > 64 {
		return ^uint64(0)
	}
	switch t.Op {
	case OConst:
		return t.C
	case OZext:
		return umax(t.A[0])
	case OBAnd:
		a, b := umax(t.A[0]), umax(t.A[1])
		if a < b {
			return a
		}
		return b
	case OLShr:
		if t.A[1].IsConst() && t.A[1].C < 64 {
			return umax(t.A[0]) >> t.A[1].C
		}
		return umax(t.A[0])
	case OURem:
		if t.A[1].IsConst() && t.A[1].C > 0 {
			return t.A[1].C - 1
		}
	case OShl:
		if t.A[1].IsConst() && t.A[1].C < 64 {
			a := umax(t.A[0])
			if r := a << t.A[1].C; r>>t.A[1].C == a && r <= mask(t.Sort.W) {
				return r
			}
		}
	case OSext:
		// non-negative narrow value stays the same
		w := t.A[0].Sort.W
		if a := umax(t.A[0]); a < uint64(1)<<uint(w-1) {
			return a
		}
	case OIte:
		a, b := umax(t.A[1]), umax(t.A[2])
		if a > b {
			return a
		}
		return b
	case OExtract:
		hi, lo := int(t.C>>16), int(t.C&0xffff)
		m := mask(hi - lo + 1)
		if lo == 0 {
			if a := umax(t.A[0]); a < m {
				return a
			}
		}
		return m
	case OAdd:
		a, b := umax(t.A[0]), umax(t.A[1])
		if s := a + b; s >= a && s <= mask(t.Sort.W) {
			return s
		}
	case OBOr, OBXor:
		a, b := umax(t.A[0]), umax(t.A[1])
		if a < b {
			a = b
		}
		// smallest all-ones >= a
		n := bits.Len64(a)
		return mask(n)
	}
	return mask(t.Sort.W)
}

func (tt *TermTable) cmpByRange(a, b *Term, strict bool) (*Term, bool) {
	if a.Sort.W > 64 {
		return nil, false
	}
	if b.IsConst() {
		m := umax(a)
		if strict && m < b.C {
			return tt.Bool(true), true
		}
		if !strict && m <= b.C {
			return tt.Bool(true), true
		}
	}
	if a.IsConst() {
		m := umax(b)
		if strict && a.C >= m { // a < b impossible if a >= max(b)
			return tt.Bool(false), true
		}
		if !strict && a.C > m {
			return tt.Bool(false), true
		}
	}
	return nil, false
}

// signed compare when both are known non-negative and small
func (tt *TermTable) scmpByRange(a, b *Term, strict bool) (*Term, bool) {
	w := a.Sort.W
	if w > 64 {
		return nil, false
	}
	half := uint64(1) << uint(w-1)
	ma, mb := umax(a), umax(b)
	if ma < half && mb < half {
		if strict {
			return tt.Mk(OUlt, sortBool, 0, a, b), true
		}
		return tt.Mk(OUle, sortBool, 0, a, b), true
	}
	return nil, false
}

func isZero(t *Term) bool {
	return t.IsConst() && t.Sort.K == SBV && t.C == 0 && (t.Big == nil || t.Big.Sign() == 0)
}
func isOne(t *Term) bool {
	return t.IsConst() && t.Sort.K == SBV && ((t.Big == nil && t.C == 1) || (t.Big != nil && t.Big.IsInt64() && t.Big.Int64() == 1))
}
func isAllOnes(t *Term) bool {
	return t.IsConst() && t.Sort.K == SBV && t.Sort.W <= 64 && t.C == mask(t.Sort.W)
}
func (tt *TermTable) zeroBV(w int) *Term { return tt.BV(w, 0) }

// convenience constructors
func (tt *TermTable) Not(a *Term) *Term     { return tt.Mk(ONot, sortBool, 0, a) }
func (tt *TermTable) And(a ...*Term) *Term  { return tt.Mk(OAnd, sortBool, 0, a...) }
func (tt *TermTable) Or(a ...*Term) *Term   { return tt.Mk(OOr, sortBool, 0, a...) }
func (tt *TermTable) Eq(a, b *Term) *Term   { return tt.Mk(OEq, sortBool, 0, a, b) }
func (tt *TermTable) Ite(c, a, b *Term) *Term { return tt.Mk(OIte, a.Sort, 0, c, a, b) }
func (tt *TermTable) Extract(a *Term, hi, lo int) *Term {
	return tt.Mk(OExtract, bvSort(hi-lo+1), uint64(hi)<<16|uint64(lo), a)
}

func sext64(v uint64, w int) int64 {
	if w >= 64 {
		return int64(v)
	}
	sh := uint(64 - w)
	return int64(v<<sh) >> sh
}

func toBig(v cval, w int) *big.Int {
	if v.big != nil {
		return v.big
	}
	return new(big.Int).SetUint64(v.u)
}

func sbig(v cval, w int) *big.Int {
	b := new(big.Int).Set(toBig(v, w))
	if b.Bit(w-1) == 1 {
		b.Sub(b, new(big.Int).Lsh(big.NewInt(1), uint(w)))
	}
	return b
}

func mkv(w int, b *big.Int) cval {
	b = new(big.Int).And(b, bigMask(w))
	if w <= 64 {
		return cval{u: b.Uint64()}
	}
	return cval{big: b}
}

func b2u(b bool) uint64 {
	if b {
		return 1
	}
	return 0
}

// evalOp evaluates one operator on concrete operands. ok=false if not
// evaluable (uninterpreted, unspecified).
func evalOp(op Op, s Sort, c uint64, args []*Term, v []cval) (cval, bool) {
	aw := 0
	if len(args) > 0 {
		aw = args[0].Sort.W
	}
	wide := false
	for _, a := range args {
		if a.Sort.K == SBV && a.Sort.W > 64 {
			wide = true
		}
	}
	if s.K == SBV && s.W > 64 {
		wide = true
	}
	switch op {
	case ONot:
		return cval{u: v[0].u ^ 1}, true
	case OAnd:
		r := uint64(1)
		for _, x := range v {
			r &= x.u
		}
		return cval{u: r}, true
	case OOr:
		r := uint64(0)
		for _, x := range v {
			r |= x.u
		}
		return cval{u: r}, true
	case OIte:
		if v[0].u != 0 {
			return v[1], true
		}
		return v[2], true
	case OEq:
		switch args[0].Sort.K {
		case SFP64:
			// SMT "=" on FP is structural (NaN = NaN, +0 != -0)
			a, b := math.Float64frombits(v[0].u), math.Float64frombits(v[1].u)
			if a != a && b != b {
				return cval{u: 1}, true
			}
			return cval{u: b2u(v[0].u == v[1].u)}, true
		case SInt:
			return cval{u: b2u(v[0].big.Cmp(v[1].big) == 0)}, true
		case SReal:
			return cval{u: b2u(v[0].rat.Cmp(v[1].rat) == 0)}, true
		}
		if wide {
			return cval{u: b2u(toBig(v[0], aw).Cmp(toBig(v[1], aw)) == 0)}, true
		}
		return cval{u: b2u(v[0].u == v[1].u)}, true
	}
	if wide {
		return evalWide(op, s, c, args, v)
	}
	m := mask(s.W)
	switch op {
	case OAdd:
		return cval{u: (v[0].u + v[1].u) & m}, true
	case OSub:
		return cval{u: (v[0].u - v[1].u) & m}, true
	case OMul:
		return cval{u: (v[0].u * v[1].u) & m}, true
	case OUDiv:
		if v[1].u == 0 {
			return cval{u: m}, true
		}
		return cval{u: v[0].u / v[1].u}, true
	case OURem:
		if v[1].u == 0 {
			return v[0], true
		}
		return cval{u: v[0].u % v[1].u}, true
	case OSDiv:
		a, b := sext64(v[0].u, aw), sext64(v[1].u, aw)
		if b == 0 {
			if a < 0 {
				return cval{u: 1}, true
			}
			return cval{u: m}, true
		}
		if b == -1 {
			return cval{u: uint64(-a) & m}, true
		}
		return cval{u: uint64(a/b) & m}, true
	case OSRem:
		a, b := sext64(v[0].u, aw), sext64(v[1].u, aw)
		if b == 0 {
			return v[0], true
		}
		if b == -1 {
			return cval{u: 0}, true
		}
		return cval{u: uint64(a%b) & m}, true
	case OBAnd:
		return cval{u: v[0].u & v[1].u}, true
	case OBOr:
		return cval{u: v[0].u | v[1].u}, true
	case OBXor:
		return cval{u: v[0].u ^ v[1].u}, true
	case OBNot:
		return cval{u: ^v[0].u & m}, true
	case ONeg:
		return cval{u: -v[0].u & m}, true
	case OShl:
		if v[1].u >= uint64(s.W) {
			return cval{u: 0}, true
		}
		return cval{u: (v[0].u << v[1].u) & m}, true
	case OLShr:
		if v[1].u >= uint64(s.W) {
			return cval{u: 0}, true
		}
		return cval{u: v[0].u >> v[1].u}, true
	case OAShr:
		a := sext64(v[0].u, aw)
		sh := v[1].u
		if sh >= uint64(s.W) {
			sh = 63
		}
		return cval{u: uint64(a>>sh) & m}, true
	case OUlt:
		return cval{u: b2u(v[0].u < v[1].u)}, true
	case OUle:
		return cval{u: b2u(v[0].u <= v[1].u)}, true
	case OSlt:
		return cval{u: b2u(sext64(v[0].u, aw) < sext64(v[1].u, aw))}, true
	case OSle:
		return cval{u: b2u(sext64(v[0].u, aw) <= sext64(v[1].u, aw))}, true
	case OConcat:
		return cval{u: v[0].u<<uint(args[1].Sort.W) | v[1].u}, true
	case OExtract:
		hi, lo := int(c>>16), int(c&0xffff)
		return cval{u: (v[0].u >> uint(lo)) & mask(hi-lo+1)}, true
	case OZext:
		return cval{u: v[0].u}, true
	case OSext:
		return cval{u: uint64(sext64(v[0].u, aw)) & m}, true
	// FP
	case OFAdd, OFSub, OFMul, OFDiv:
		a, b := math.Float64frombits(v[0].u), math.Float64frombits(v[1].u)
		var r float64
		switch op {
		case OFAdd:
			r = a + b
		case OFSub:
			r = a - b
		case OFMul:
			r = a * b
		case OFDiv:
			r = a / b
		}
		return cval{u: math.Float64bits(r)}, true
	case OFNeg:
		return cval{u: v[0].u ^ (1 << 63)}, true
	case OFAbs:
		return cval{u: v[0].u &^ (1 << 63)}, true
	case OFLt:
		return cval{u: b2u(math.Float64frombits(v[0].u) < math.Float64frombits(v[1].u))}, true
	case OFLe:
		return cval{u: b2u(math.Float64frombits(v[0].u) <= math.Float64frombits(v[1].u))}, true
	case OFEq:
		return cval{u: b2u(math.Float64frombits(v[0].u) == math.Float64frombits(v[1].u))}, true
	case OFIsNaN:
		f := math.Float64frombits(v[0].u)
		return cval{u: b2u(f != f)}, true
	case OFIsInf:
		return cval{u: b2u(math.IsInf(math.Float64frombits(v[0].u), 0))}, true
	case OFRound:
		f := math.Float64frombits(v[0].u)
		var r float64
		switch c {
		case 0:
			r = math.RoundToEven(f)
		case 1:
			r = math.Round(f)
		case 2:
			r = math.Ceil(f)
		case 3:
			r = math.Floor(f)
		case 4:
			r = math.Trunc(f)
		}
		return cval{u: math.Float64bits(r)}, true
	case OFFromS:
		return cval{u: math.Float64bits(float64(sext64(v[0].u, aw)))}, true
	case OFFromU:
		return cval{u: math.Float64bits(float64(v[0].u))}, true
	case OFToS:
		f := math.Float64frombits(v[0].u)
		if f != f {
			return cval{}, false
		}
		t := math.Trunc(f)
		lim := math.Ldexp(1, s.W-1)
		if t >= lim || t < -lim {
			return cval{}, false
		}
		return cval{u: uint64(int64(t)) & m}, true
	case OFToU:
		f := math.Float64frombits(v[0].u)
		if f != f {
			return cval{}, false
		}
		t := math.Trunc(f)
		if t < 0 || t >= math.Ldexp(1, s.W) {
			return cval{}, false
		}
		return cval{u: uint64(t) & m}, true
	case OFBits:
		f := math.Float64frombits(v[0].u)
		if f != f {
			return cval{}, false
		}
		return cval{u: v[0].u}, true
	case OFOfBits:
		return cval{u: v[0].u}, true
	case OFToReal:
		f := math.Float64frombits(v[0].u)
		if f != f || math.IsInf(f, 0) {
			return cval{}, false
		}
		return cval{rat: new(big.Rat).SetFloat64(f)}, true
	// Int/Real
	case OIAdd, OISub, OIMul:
		if s.K == SReal {
			r := new(big.Rat)
			switch op {
			case OIAdd:
				r.Add(v[0].rat, v[1].rat)
			case OISub:
				r.Sub(v[0].rat, v[1].rat)
			case OIMul:
				r.Mul(v[0].rat, v[1].rat)
			}
			return cval{rat: r}, true
		}
		r := new(big.Int)
		switch op {
		case OIAdd:
			r.Add(v[0].big, v[1].big)
		case OISub:
			r.Sub(v[0].big, v[1].big)
		case OIMul:
			r.Mul(v[0].big, v[1].big)
		}
		return cval{big: r}, true
	case OINeg:
		if s.K == SReal {
			return cval{rat: new(big.Rat).Neg(v[0].rat)}, true
		}
		return cval{big: new(big.Int).Neg(v[0].big)}, true
	case OIDiv, OIMod:
		if v[1].big.Sign() == 0 {
			return cval{}, false
		}
		q, r := new(big.Int).DivMod(v[0].big, v[1].big, new(big.Int)) // euclidean
		if op == OIDiv {
			return cval{big: q}, true
		}
		return cval{big: r}, true
	case ORDiv:
		if v[1].rat.Sign() == 0 {
			return cval{}, false
		}
		return cval{rat: new(big.Rat).Quo(v[0].rat, v[1].rat)}, true
	case OILt:
		if args[0].Sort.K == SReal {
			return cval{u: b2u(v[0].rat.Cmp(v[1].rat) < 0)}, true
		}
		return cval{u: b2u(v[0].big.Cmp(v[1].big) < 0)}, true
	case OILe:
		if args[0].Sort.K == SReal {
			return cval{u: b2u(v[0].rat.Cmp(v[1].rat) <= 0)}, true
		}
		return cval{u: b2u(v[0].big.Cmp(v[1].big) <= 0)}, true
	case OToReal:
		return cval{rat: new(big.Rat).SetInt(v[0].big)}, true
	case OToInt:
		r := v[0].rat
		q := new(big.Int).Div(r.Num(), r.Denom()) // Div is euclidean; denom>0 so floor
		return cval{big: q}, true
	case OIsInt:
		return cval{u: b2u(v[0].rat.IsInt())}, true
	case OBv2Int:
		return cval{big: new(big.Int).SetUint64(v[0].u)}, true
	case OInt2Bv:
		return mkv(s.W, v[0].big), true
	}
	return cval{}, false
}

func evalWide(op Op, s Sort, c uint64, args []*Term, v []cval) (cval, bool) {
	aw := args[0].Sort.W
	a := toBig(v[0], aw)
	var b *big.Int
	if len(v) > 1 {
		b = toBig(v[1], args[1].Sort.W)
	}
	r := new(big.Int)
	switch op {
	case OAdd:
		return mkv(s.W, r.Add(a, b)), true
	case OSub:
		return mkv(s.W, r.Sub(a, b)), true
	case OMul:
		return mkv(s.W, r.Mul(a, b)), true
	case OUDiv:
		if b.Sign() == 0 {
			return mkv(s.W, bigMask(s.W)), true
		}
		return mkv(s.W, r.Quo(a, b)), true
	case OURem:
		if b.Sign() == 0 {
			return mkv(s.W, a), true
		}
		return mkv(s.W, r.Rem(a, b)), true
	case OSDiv:
		sa, sb := sbig(v[0], aw), sbig(v[1], aw)
		if sb.Sign() == 0 {
			return cval{}, false
		}
		return mkv(s.W, r.Quo(sa, sb)), true
	case OSRem:
		sa, sb := sbig(v[0], aw), sbig(v[1], aw)
		if sb.Sign() == 0 {
			return cval{}, false
		}
		return mkv(s.W, r.Rem(sa, sb)), true
	case OBAnd:
		return mkv(s.W, r.And(a, b)), true
	case OBOr:
		return mkv(s.W, r.Or(a, b)), true
	case OBXor:
		return mkv(s.W, r.Xor(a, b)), true
	case OBNot:
		return mkv(s.W, r.Xor(a, bigMask(s.W))), true
	case ONeg:
		return mkv(s.W, r.Neg(a)), true
	case OShl:
		if b.Cmp(big.NewInt(int64(s.W))) >= 0 {
			return mkv(s.W, big.NewInt(0)), true
		}
		return mkv(s.W, r.Lsh(a, uint(b.Uint64()))), true
	case OLShr:
		if b.Cmp(big.NewInt(int64(s.W))) >= 0 {
			return mkv(s.W, big.NewInt(0)), true
		}
		return mkv(s.W, r.Rsh(a, uint(b.Uint64()))), true
	case OAShr:
		sa := sbig(v[0], aw)
		sh := uint(s.W)
		if b.Cmp(big.NewInt(int64(s.W))) < 0 {
			sh = uint(b.Uint64())
		}
		return mkv(s.W, r.Rsh(sa, sh)), true
	case OUlt:
		return cval{u: b2u(a.Cmp(b) < 0)}, true
	case OUle:
		return cval{u: b2u(a.Cmp(b) <= 0)}, true
	case OSlt:
		return cval{u: b2u(sbig(v[0], aw).Cmp(sbig(v[1], aw)) < 0)}, true
	case OSle:
		return cval{u: b2u(sbig(v[0], aw).Cmp(sbig(v[1], aw)) <= 0)}, true
	case OConcat:
		return mkv(s.W, r.Or(r.Lsh(a, uint(args[1].Sort.W)), b)), true
	case OExtract:
		lo := int(c & 0xffff)
		return mkv(s.W, r.Rsh(a, uint(lo))), true
	case OZext:
		return mkv(s.W, a), true
	case OSext:
		return mkv(s.W, sbig(v[0], aw)), true
	case OBv2Int:
		return cval{big: new(big.Int).Set(a)}, true
	case OInt2Bv:
		return mkv(s.W, v[0].big), true
	}
	return cval{}, false
}

// Model maps variable names to values.
type Model map[string]cval

// Eval evaluates t under m. Unassigned variables default to zero.
func (tt *TermTable) Eval(t *Term, m Model, memo map[int]*cval) (cval, bool) {
	if r, ok := memo[t.id]; ok {
		if r == nil {
			return cval{}, false
		}
		return *r, true
	}
	var res cval
	ok := true
	switch t.Op {
	case OConst:
		res = t.constVal()
	case OVar:
		if v, found := m[t.Name]; found {
			res = v
		} else {
			switch t.Sort.K {
			case SInt:
				res = cval{big: new(big.Int)}
			case SReal:
				res = cval{rat: new(big.Rat)}
			case SBV:
				if t.Sort.W > 64 {
					res = cval{big: new(big.Int)}
				}
			}
		}
	case OUF:
		ok = false
	case OIte:
		c, cok := tt.Eval(t.A[0], m, memo)
		if !cok {
			ok = false
			break
		}
		if c.u != 0 {
			res, ok = tt.Eval(t.A[1], m, memo)
		} else {
			res, ok = tt.Eval(t.A[2], m, memo)
		}
	default:
		vals := make([]cval, len(t.A))
		for i, a := range t.A {
			v, aok := tt.Eval(a, m, memo)
			if !aok {
				ok = false
				break
			}
			vals[i] = v
		}
		if ok {
			res, ok = evalOp(t.Op, t.Sort, t.C, t.A, vals)
		}
	}
	if ok {
		r := res
		memo[t.id] = &r
	} else {
		memo[t.id] = nil
	}
	return res, ok
}

// ---------------------------------------------------------------- printing

func constSMT(t *Term) string {
	switch t.Sort.K {
	case SBool:
		if t.C != 0 {
			return "true"
		}
		return "false"
	case SBV:
		if t.Big != nil {
			return fmt.Sprintf("(_ bv%s %d)", t.Big.String(), t.Sort.W)
		}
		return fmt.Sprintf("(_ bv%d %d)", t.C, t.Sort.W)
	case SFP64:
		return fmt.Sprintf("((_ to_fp 11 53) #x%016x)", t.C)
	case SInt:
		if t.Big.Sign() < 0 {
			return fmt.Sprintf("(- %s)", new(big.Int).Neg(t.Big).String())
		}
		return t.Big.String()
	case SReal:
		r, _ := new(big.Rat).SetString(t.Name)
		n, d := r.Num(), r.Denom()
		ns := n.String()
		if n.Sign() < 0 {
			ns = fmt.Sprintf("(- %s.0)", new(big.Int).Neg(n).String())
		} else {
			ns += ".0"
		}
		if d.IsInt64() && d.Int64() == 1 {
			return ns
		}
		return fmt.Sprintf("(/ %s %s.0)", ns, d.String())
	}
	panic("constSMT")
}

var roundModes = []string{"RNE", "RNA", "RTP", "RTN", "RTZ"}

// smtHead renders the node using child names produced by ref.
func smtNode(t *Term, ref func(*Term) string) string {
	switch t.Op {
	case OConst:
		return constSMT(t)
	case OVar:
		return smtName(t.Name)
	}
	var sb strings.Builder
	sb.WriteByte('(')
	switch t.Op {
	case OExtract:
		fmt.Fprintf(&sb, "(_ extract %d %d)", t.C>>16, t.C&0xffff)
	case OZext:
		fmt.Fprintf(&sb, "(_ zero_extend %d)", t.Sort.W-t.A[0].Sort.W)
	case OSext:
		fmt.Fprintf(&sb, "(_ sign_extend %d)", t.Sort.W-t.A[0].Sort.W)
	case OFRound:
		fmt.Fprintf(&sb, "fp.roundToIntegral %s", roundModes[t.C])
	case OFFromS:
		sb.WriteString("(_ to_fp 11 53) RNE")
	case OFFromU:
		sb.WriteString("(_ to_fp_unsigned 11 53) RNE")
	case OFToS:
		fmt.Fprintf(&sb, "(_ fp.to_sbv %d) RTZ", t.Sort.W)
	case OFToU:
		fmt.Fprintf(&sb, "(_ fp.to_ubv %d) RTZ", t.Sort.W)
	case OInt2Bv:
		fmt.Fprintf(&sb, "(_ int2bv %d)", t.Sort.W)
	case OUF:
		sb.WriteString(smtName(t.Name))
	default:
		n, ok := opNames[t.Op]
		if !ok {
			panic(fmt.Sprintf("no smt name for op %d", t.Op))
		}
		sb.WriteString(n)
	}
	for _, a := range t.A {
		sb.WriteByte(' ')
		sb.WriteString(ref(a))
	}
	sb.WriteByte(')')
	return sb.String()
}

func smtName(n string) string {
	return "|" + strings.NewReplacer("|", "_", "\\", "_").Replace(n) + "|"
}

// String renders a term as a tree (for debugging / samples; may be large).
func (t *Term) String() string {
	var f func(*Term, int) string
	f = func(x *Term, d int) string {
		if d > 6 {
			return "…"
		}
		return smtNode(x, func(a *Term) string { return f(a, d+1) })
	}
	return f(t, 0)
}
