package main

// Contract stubs: sync, sync/atomic, fmt, errors.

import (
	"path/filepath"
	"unsafe"
	"golang.org/x/tools/go/ssa"
	"errors"
	"fmt"
	"go/token"
	"go/types"
	"os"
	"strings"
)

var osStderr = os.Stderr

func tokLSS() token.Token { return token.LSS }

// ---------------------------------------------------------------- fmt

type nativeErr struct{ s string }

func (e nativeErr) Error() string { return e.s }

type nativeStringer struct{ s string }

func (e nativeStringer) String() string { return e.s }

// toNative converts an interface-typed interpreter value into a native Go
// value that formats identically, if possible.
func toNative(fr *frame, v value, depth int) (interface{}, bool) {
	switch x := v.(type) {
	case iface:
		if x.t == nil {
			return nil, true
		}
		// error / Stringer: call the interpreted method
		if depth < 3 {
			for _, mname := range []string{"Error", "String"} {
				if m := findMethod(fr.i, x.t, mname); m != nil && m.Signature.Params().Len() == 0 && m.Signature.Results().Len() == 1 {
					res := callSSA(fr.i, fr, token.NoPos, m, []value{x.v}, nil)
					if s, ok := res.(string); ok {
						if mname == "Error" {
							return nativeErr{s}, true
						}
						return nativeStringer{s}, true
					}
					return nil, false
				}
			}
		}
		if _, isPtr := x.t.Underlying().(*types.Pointer); isPtr {
			// %p / %v of a pointer: addresses are arbitrary; a fixed one keeps
			// the text concrete
			if p, ok := x.v.(*value); ok && p == nil {
				return unsafe.Pointer(nil), true
			}
			return unsafe.Pointer(uintptr(0xc000010000)), true
		}
		if _, isBasic := x.t.Underlying().(*types.Basic); !isBasic {
			switch x.v.(type) {
			case structure, array, []value, *omap, *closure, *ssa.Function:
				// composite Go value without Error/String: its %v text is
				// never the subject of a property; keep it concrete
				return nativeStringer{"<" + x.t.String() + " value>"}, true
			}
			return nil, false
		}
		return toNative(fr, x.v, depth+1)
	case bool, int, int8, int16, int32, int64, uint, uint8, uint16, uint32, uint64, uintptr, float32, float64, string:
		return x, true
	}
	return nil, false
}

func findMethod(i *interpreter, t types.Type, name string) *ssa_Function {
	ms := i.prog.MethodSets.MethodSet(t)
	for k := 0; k < ms.Len(); k++ {
		sel := ms.At(k)
		if sel.Obj().Name() == name {
			return i.prog.MethodValue(sel)
		}
	}
	return nil
}

func fmtArgsNative(fr *frame, args []value) ([]interface{}, bool) {
	out := make([]interface{}, len(args))
	for i, a := range args {
		n, ok := toNative(fr, a, 0)
		if !ok {
			return nil, false
		}
		out[i] = n
	}
	return out, true
}

func sprintfLike(fr *frame, format value, args value) value {
	f, ok := format.(string)
	if ok {
		as, _ := args.([]value)
		if na, ok := fmtArgsNative(fr, as); ok {
			return fmt.Sprintf(strings.ReplaceAll(f, "%w", "%v"), na...)
		}
		if r, ok := sprintfSymbolic(fr, f, as); ok {
			return r
		}
	}
	if fr.i.p == nil {
		return "<unformatted>"
	}
	return opaqueString(fr)
}

func sprintLike(fr *frame, args value, ln bool) value {
	as, _ := args.([]value)
	if na, ok := fmtArgsNative(fr, as); ok {
		if ln {
			return fmt.Sprintln(na...)
		}
		return fmt.Sprint(na...)
	}
	if fr.i.p == nil {
		return "<unformatted>"
	}
	return opaqueString(fr)
}

// writeTo calls w.Write(bytes of s) on an interpreted io.Writer.
func writeTo(fr *frame, w value, s value) value {
	wi := w.(iface)
	if wi.t == nil {
		rtPanic(fr, "invalid memory address or nil pointer dereference")
	}
	m := findMethod(fr.i, wi.t, "Write")
	if m == nil {
		panic("writer without Write")
	}
	var b []value
	switch s := s.(type) {
	case string, sstr:
		b = append([]value{}, strBytes(s)...)
	default:
		panic(pathEnd{stUnsupported, "write of abstract string"})
	}
	return callSSA(fr.i, fr, token.NoPos, m, []value{wi.v, b}, nil)
}

var fmtExternals = map[string]externalFn{
	"fmt.Sprintf": func(fr *frame, args []value) value { return sprintfLike(fr, args[0], args[1]) },
	"fmt.Sprint":  func(fr *frame, args []value) value { return sprintLike(fr, args[0], false) },
	"fmt.Sprintln": func(fr *frame, args []value) value { return sprintLike(fr, args[0], true) },
	"fmt.Errorf": func(fr *frame, args []value) value {
		msg := sprintfLike(fr, args[0], args[1])
		f, _ := args[0].(string)
		if strings.Contains(f, "%w") {
			// find the wrapped error (first %w operand)
			as := args[1].([]value)
			idx := 0
			var wrapped value = iface{}
			for k := 0; k+1 < len(f); k++ {
				if f[k] == '%' {
					if f[k+1] == '%' {
						k++
						continue
					}
					// skip flags/width
					j := k + 1
					for j < len(f) && strings.ContainsRune("+-# 0123456789.", rune(f[j])) {
						j++
					}
					if j < len(f) && f[j] == 'w' && idx < len(as) {
						wrapped = as[idx]
						break
					}
					idx++
					k = j
				}
			}
			fp := fr.i.prog.ImportedPackage("fmt")
			t := fp.Type("wrapError").Object().Type()
			var cell value = structure{msg, wrapped}
			return iface{t: types.NewPointer(t), v: &cell}
		}
		if s, ok := msg.(string); ok {
			return fr.i.mkError(s)
		}
		ep := fr.i.prog.ImportedPackage("errors")
		t := ep.Type("errorString").Object().Type()
		var cell value = structure{msg}
		return iface{t: types.NewPointer(t), v: &cell}
	},
	"fmt.Fprintf": func(fr *frame, args []value) value {
		return writeTo(fr, args[0], sprintfLike(fr, args[1], args[2]))
	},
	"fmt.Fprint": func(fr *frame, args []value) value {
		return writeTo(fr, args[0], sprintLike(fr, args[1], false))
	},
	"fmt.Fprintln": func(fr *frame, args []value) value {
		return writeTo(fr, args[0], sprintLike(fr, args[1], true))
	},
	"fmt.Printf":  func(fr *frame, args []value) value { return tuple{0, iface{}} },
	"fmt.Println": func(fr *frame, args []value) value { return tuple{0, iface{}} },
	"fmt.Print":   func(fr *frame, args []value) value { return tuple{0, iface{}} },

	"errors.Is": func(fr *frame, args []value) value {
		err, target := args[0].(iface), args[1].(iface)
		return errorsIs(fr, err, target, 0)
	},
	"errors.As": func(fr *frame, args []value) value {
		err := args[0].(iface)
		tgt := args[1].(iface)
		if tgt.t == nil {
			panic(targetPanic{iface{fr.i.runtimeErrorString, "errors: target cannot be nil"}})
		}
		pt, ok := tgt.t.Underlying().(*types.Pointer)
		if !ok {
			panic(targetPanic{iface{fr.i.runtimeErrorString, "errors: target must be a non-nil pointer"}})
		}
		elem := pt.Elem()
		return errorsAs(fr, err, tgt.v.(*value), elem, 0)
	},
}

func errorsIs(fr *frame, err, target iface, depth int) value {
	if depth > 50 {
		return false
	}
	if err.t == nil {
		return target.t == nil
	}
	if target.t != nil && types.Comparable(target.t) && sameType(err.t, target.t) {
		if fr.toBool(equals(fr, err.t, err.v, target.v)) {
			return true
		}
	}
	if m := findMethod(fr.i, err.t, "Is"); m != nil && m.Signature.Params().Len() == 1 {
		if fr.toBool(callSSA(fr.i, fr, token.NoPos, m, []value{err.v, target}, nil)) {
			return true
		}
	}
	if m := findMethod(fr.i, err.t, "Unwrap"); m != nil && m.Signature.Params().Len() == 0 {
		res := callSSA(fr.i, fr, token.NoPos, m, []value{err.v}, nil)
		switch r := res.(type) {
		case iface:
			if r.t == nil {
				return false
			}
			return errorsIs(fr, r, target, depth+1)
		case []value:
			for _, e := range r {
				if fr.toBool(errorsIs(fr, e.(iface), target, depth+1)) {
					return true
				}
			}
		}
	}
	return false
}

func errorsAs(fr *frame, err iface, dst *value, elem types.Type, depth int) value {
	if depth > 50 || err.t == nil {
		return false
	}
	if it, ok := elem.Underlying().(*types.Interface); ok {
		if types.Implements(err.t, it) {
			*dst = err
			return true
		}
	} else if types.Identical(err.t, elem) {
		store(elem, dst, err.v)
		return true
	}
	if m := findMethod(fr.i, err.t, "Unwrap"); m != nil && m.Signature.Params().Len() == 0 {
		res := callSSA(fr.i, fr, token.NoPos, m, []value{err.v}, nil)
		switch r := res.(type) {
		case iface:
			return errorsAs(fr, r, dst, elem, depth+1)
		case []value:
			for _, e := range r {
				if fr.toBool(errorsAs(fr, e.(iface), dst, elem, depth+1)) {
					return true
				}
			}
		}
	}
	return false
}

var _ = errors.New

// ---------------------------------------------------------------- sync

func ptrStruct(fr *frame, v value) structure {
	p, ok := v.(*value)
	if !ok || p == nil {
		rtPanic(fr, "invalid memory address or nil pointer dereference")
	}
	s, ok := (*p).(structure)
	if !ok {
		checkBad(*p)
		panic(fmt.Sprintf("ptrStruct: %T", *p))
	}
	return s
}

func fatal(fr *frame, msg string) {
	panic(pathEnd{stViolation, "fatal error: " + msg + " at " + fr.callerPos()})
}

func (fr *frame) callerPos() string {
	if fr.caller != nil {
		return fr.caller.pos()
	}
	return ""
}

func atomicLoad(fr *frame, args []value) value {
	return loadFrom(fr, types.Typ[types.Int], args[0])
}

func atomicStore(fr *frame, args []value) value {
	storeTo(fr, types.Typ[types.Int], args[0], args[1])
	return nil
}

func atomicAdd(t types.Type) externalFn {
	return func(fr *frame, args []value) value {
		old := loadFrom(fr, t, args[0])
		nv := binop(fr, token.ADD, t, t, old, args[1])
		storeTo(fr, t, args[0], nv)
		return nv
	}
}

func atomicSwap(fr *frame, args []value) value {
	old := loadFrom(fr, types.Typ[types.Int], args[0])
	storeTo(fr, types.Typ[types.Int], args[0], args[1])
	return old
}

func atomicCAS(t types.Type) externalFn {
	return func(fr *frame, args []value) value {
		old := loadFrom(fr, t, args[0])
		if fr.toBool(equals(fr, t, old, args[1])) {
			storeTo(fr, t, args[0], args[2])
			return true
		}
		return false
	}
}

var syncExternals = map[string]externalFn{}

func init() {
	T := types.Typ
	for _, k := range []struct {
		n string
		t types.Type
	}{{"Int32", T[types.Int32]}, {"Int64", T[types.Int64]}, {"Uint32", T[types.Uint32]}, {"Uint64", T[types.Uint64]}, {"Uintptr", T[types.Uintptr]}} {
		syncExternals["sync/atomic.Load"+k.n] = atomicLoad
		syncExternals["sync/atomic.Store"+k.n] = atomicStore
		syncExternals["sync/atomic.Add"+k.n] = atomicAdd(k.t)
		syncExternals["sync/atomic.Swap"+k.n] = atomicSwap
		syncExternals["sync/atomic.CompareAndSwap"+k.n] = atomicCAS(k.t)
		syncExternals["internal/runtime/atomic.Load"+k.n] = atomicLoad
	}
	syncExternals["sync/atomic.LoadPointer"] = atomicLoad
	syncExternals["sync/atomic.StorePointer"] = atomicStore
	// atomic.Pointer[T]: field layout {_ [0]*T; _ noCopy; v unsafe.Pointer}
	syncExternals["(*sync/atomic.Pointer[T]).Load"] = func(fr *frame, args []value) value {
		s := ptrStruct(fr, args[0])
		if p, ok := s[2].(*value); ok {
			return p
		}
		return (*value)(nil)
	}
	syncExternals["(*sync/atomic.Pointer[T]).Store"] = func(fr *frame, args []value) value {
		s := ptrStruct(fr, args[0])
		s[2] = args[1]
		return nil
	}
	syncExternals["(*sync/atomic.Pointer[T]).Swap"] = func(fr *frame, args []value) value {
		s := ptrStruct(fr, args[0])
		old := s[2]
		s[2] = args[1]
		if p, ok := old.(*value); ok {
			return p
		}
		return (*value)(nil)
	}
	syncExternals["(*sync/atomic.Pointer[T]).CompareAndSwap"] = func(fr *frame, args []value) value {
		s := ptrStruct(fr, args[0])
		cur, _ := s[2].(*value)
		if cur == args[1].(*value) {
			s[2] = args[2]
			return true
		}
		return false
	}
	// atomic.Value {v any}
	syncExternals["(*sync/atomic.Value).Load"] = func(fr *frame, args []value) value {
		s := ptrStruct(fr, args[0])
		return s[0]
	}
	syncExternals["(*sync/atomic.Value).Store"] = func(fr *frame, args []value) value {
		s := ptrStruct(fr, args[0])
		s[0] = args[1]
		return nil
	}

	// sync.Mutex {state int32; sema uint32}: state 0 = unlocked, 1 = locked
	syncExternals["(*sync.Mutex).Lock"] = func(fr *frame, args []value) value {
		s := ptrStruct(fr, args[0])
		mutexLock(fr, &s[0])
		return nil
	}
	syncExternals["(*sync.Mutex).TryLock"] = func(fr *frame, args []value) value {
		s := ptrStruct(fr, args[0])
		if s[0].(int32) != 0 {
			return false
		}
		s[0] = int32(1)
		return true
	}
	syncExternals["(*sync.Mutex).Unlock"] = func(fr *frame, args []value) value {
		s := ptrStruct(fr, args[0])
		if s[0].(int32) == 0 {
			fatal(fr, "sync: unlock of unlocked mutex")
		}
		s[0] = int32(0)
		schedWake(fr)
		return nil
	}
	// sync.RWMutex {w Mutex; writerSem, readerSem uint32; readerCount, readerWait atomic.Int32}
	// model: w.state = 1 when write-locked; writerSem = number of readers
	syncExternals["(*sync.RWMutex).Lock"] = func(fr *frame, args []value) value {
		s := ptrStruct(fr, args[0])
		rwLock(fr, s, true)
		return nil
	}
	syncExternals["(*sync.RWMutex).Unlock"] = func(fr *frame, args []value) value {
		s := ptrStruct(fr, args[0])
		w := s[0].(structure)
		if w[0].(int32) == 0 {
			fatal(fr, "sync: Unlock of unlocked RWMutex")
		}
		w[0] = int32(0)
		schedWake(fr)
		return nil
	}
	syncExternals["(*sync.RWMutex).RLock"] = func(fr *frame, args []value) value {
		s := ptrStruct(fr, args[0])
		rwLock(fr, s, false)
		return nil
	}
	syncExternals["(*sync.RWMutex).RUnlock"] = func(fr *frame, args []value) value {
		s := ptrStruct(fr, args[0])
		if s[1].(uint32) == 0 {
			fatal(fr, "sync: RUnlock of unlocked RWMutex")
		}
		s[1] = s[1].(uint32) - 1
		schedWake(fr)
		return nil
	}
	// sync.Once {done atomic.Uint32; m Mutex}
	syncExternals["(*sync.Once).Do"] = func(fr *frame, args []value) value {
		s := ptrStruct(fr, args[0])
		d := s[0].(structure) // atomic.Uint32{_ noCopy; v uint32}
		if d[len(d)-1].(uint32) != 0 {
			return nil
		}
		d[len(d)-1] = uint32(1)
		call(fr.i, fr, token.NoPos, args[1], nil)
		return nil
	}
	// sync.Pool: never retains anything (allowed by its contract): Get calls New
	syncExternals["(*sync.Pool).Get"] = func(fr *frame, args []value) value {
		s := ptrStruct(fr, args[0])
		newFn := s[len(s)-1]
		if c, ok := newFn.(*closure); ok && c == nil {
			return iface{}
		}
		if newFn == nil {
			return iface{}
		}
		if f, ok := newFn.(*ssa.Function); ok && f == nil {
			return iface{}
		}
		return call(fr.i, fr, token.NoPos, newFn, nil)
	}
	syncExternals["(*sync.Pool).Put"] = func(fr *frame, args []value) value { return nil }
	// sync.WaitGroup {noCopy; state atomic.Uint64; sema uint32}: we keep the counter in sema
	syncExternals["(*sync.WaitGroup).Add"] = func(fr *frame, args []value) value {
		s := ptrStruct(fr, args[0])
		n := int64(int32(s[2].(uint32))) + fr.toInt(args[1], nil)
		if n < 0 {
			panic(targetPanic{iface{fr.i.runtimeErrorString, "sync: negative WaitGroup counter"}})
		}
		s[2] = uint32(n)
		if n == 0 {
			schedWake(fr)
		}
		return nil
	}
	syncExternals["(*sync.WaitGroup).Done"] = func(fr *frame, args []value) value {
		s := ptrStruct(fr, args[0])
		n := int64(int32(s[2].(uint32))) - 1
		if n < 0 {
			panic(targetPanic{iface{fr.i.runtimeErrorString, "sync: negative WaitGroup counter"}})
		}
		s[2] = uint32(n)
		if n == 0 {
			schedWake(fr)
		}
		return nil
	}
	syncExternals["(*sync.WaitGroup).Wait"] = func(fr *frame, args []value) value {
		s := ptrStruct(fr, args[0])
		waitUntil(fr, "WaitGroup.Wait", func() bool { return s[2].(uint32) == 0 })
		return nil
	}
}

func mutexLock(fr *frame, state *value) {
	waitUntil(fr, "Mutex.Lock", func() bool { return (*state).(int32) == 0 })
	*state = int32(1)
}

func rwLock(fr *frame, s structure, write bool) {
	w := s[0].(structure)
	if write {
		waitUntil(fr, "RWMutex.Lock", func() bool { return w[0].(int32) == 0 && s[1].(uint32) == 0 })
		w[0] = int32(1)
	} else {
		waitUntil(fr, "RWMutex.RLock", func() bool { return w[0].(int32) == 0 })
		s[1] = s[1].(uint32) + 1
	}
}

// stubSets are per-harness stub collections selectable from checks/<id>.json.
var stubSets = map[string]map[string]externalFn{
	// directory listings come from the harness: os.ReadDir calls the harness
	// package's VerifReadDir(dir) ([]os.DirEntry, error)
	"harness-readdir": {
		"os.ReadDir": func(fr *frame, args []value) value {
			if fr.i.p == nil || fr.i.p.c == nil {
				panic(pathEnd{stUnsupported, "os.ReadDir outside a path"})
			}
			fn := fr.i.lookupFunc(fr.i.p.c.H.Pkg, "VerifReadDir")
			return callSSA(fr.i, fr, 0, fn, args, nil)
		},
	},
	// the harness file table (vrt.WriteFile / vrt.Chdir) as the file system
	"vfs": {
		"os.ReadFile": func(fr *frame, args []value) value {
			name, ok := args[0].(string)
			if !ok {
				panic(pathEnd{stUnsupported, "os.ReadFile with a symbolic name"})
			}
			c, ok := fr.i.vfs[filepath.Clean(name)]
			if !ok {
				return tuple{[]value(nil), loadGlobalErr(fr, "io/fs", "ErrNotExist")}
			}
			return tuple{append([]value{}, strBytes(c)...), iface{}}
		},
		"os.Stat": func(fr *frame, args []value) value {
			name, _ := args[0].(string)
			if _, ok := fr.i.vfs[filepath.Clean(name)]; ok {
				panic(pathEnd{stUnsupported, "os.Stat of an existing vfs file"})
			}
			return tuple{iface{}, loadGlobalErr(fr, "io/fs", "ErrNotExist")}
		},
		"os.Getwd": func(fr *frame, args []value) value {
			if fr.i.cwd == "" {
				return tuple{"/", iface{}}
			}
			return tuple{fr.i.cwd, iface{}}
		},
	},
	// a file system in which nothing exists: every open fails
	"os-nofile": {
		"os.ReadDir": func(fr *frame, args []value) value {
			return tuple{[]value(nil), fr.i.mkError("open: no such file or directory")}
		},
		"os.Open": func(fr *frame, args []value) value {
			return tuple{(*value)(nil), fr.i.mkError("open: no such file or directory")}
		},
		"os/user.Current": func(fr *frame, args []value) value {
			return tuple{(*value)(nil), fr.i.mkError("user: unknown")}
		},
		"os/user.Lookup": func(fr *frame, args []value) value {
			return tuple{(*value)(nil), fr.i.mkError("user: unknown")}
		},
		"os.Stat": func(fr *frame, args []value) value {
			return tuple{iface{}, fr.i.mkError("stat: no such file or directory")}
		},
		"os.Lstat": func(fr *frame, args []value) value {
			return tuple{iface{}, fr.i.mkError("lstat: no such file or directory")}
		},
		"os.OpenFile": func(fr *frame, args []value) value {
			return tuple{(*value)(nil), fr.i.mkError("open: no such file or directory")}
		},
	},
	// os.Pipe without the kernel: two *os.File objects sharing an in-engine
	// byte queue; Read blocks (scheduler) until data or the writer closes.
	"os-pipe": {
		"os.Pipe": func(fr *frame, args []value) value {
			op := fr.i.prog.ImportedPackage("os")
			ft := op.Type("File").Object().Type()
			p := &pipeObj{}
			fr.i.pipes = append(fr.i.pipes, p)
			mk := func(w bool) value {
				cell := zero(ft)
				cell.(structure)[0] = &pipeEnd{p: p, write: w}
				return &cell
			}
			return tuple{mk(false), mk(true), iface{}}
		},
		"(*os.File).Close": func(fr *frame, args []value) value {
			if e := pipeEndOf(fr, args[0]); e != nil {
				if e.write {
					e.p.wclosed = true
				} else {
					e.p.rclosed = true
				}
			}
			return iface{}
		},
		"(*os.File).Read": func(fr *frame, args []value) value {
			if p, ok := args[0].(*value); ok && p == nil {
				return tuple{0, fr.i.mkError("invalid argument")}
			}
			e := pipeEndOf(fr, args[0])
			if e != nil && e.write {
				return tuple{0, fr.i.mkError("read: bad file descriptor")}
			}
			if e == nil {
				panic(pathEnd{stUnsupported, "os.File.Read on something other than a stub pipe"})
			}
			b := args[1].([]value)
			if len(b) == 0 {
				return tuple{0, iface{}}
			}
			schedYield(fr)
			waitUntil(fr, "pipe read", func() bool { return len(e.p.buf) > 0 || e.p.wclosed })
			if len(e.p.buf) == 0 {
				return tuple{0, loadGlobalErr(fr, "io", "EOF")}
			}
			n := copy(b, e.p.buf)
			e.p.buf = e.p.buf[n:]
			return tuple{n, iface{}}
		},
		"(*os.File).Write": func(fr *frame, args []value) value {
			if p, ok := args[0].(*value); ok && p == nil {
				return tuple{0, fr.i.mkError("invalid argument")}
			}
			e := pipeEndOf(fr, args[0])
			if e != nil && !e.write {
				return tuple{0, fr.i.mkError("write: bad file descriptor")}
			}
			if e == nil {
				panic(pathEnd{stUnsupported, "os.File.Write on something other than a stub pipe"})
			}
			b := args[1].([]value)
			schedYield(fr)
			if e.p.rclosed {
				return tuple{0, epipeError(fr)}
			}
			e.p.buf = append(e.p.buf, b...)
			return tuple{len(b), iface{}}
		},
		"(*os.File).WriteString": func(fr *frame, args []value) value {
			if p, ok := args[0].(*value); ok && p == nil {
				return tuple{0, fr.i.mkError("invalid argument")}
			}
			e := pipeEndOf(fr, args[0])
			if e != nil && !e.write {
				return tuple{0, fr.i.mkError("write: bad file descriptor")}
			}
			if e == nil {
				panic(pathEnd{stUnsupported, "os.File.WriteString on something other than a stub pipe"})
			}
			var b []value
			switch x := args[1].(type) {
			case string:
				for k := 0; k < len(x); k++ {
					b = append(b, x[k])
				}
			case sstr:
				b = append(b, x.b...)
			default:
				panic(pathEnd{stUnsupported, "abstract string written to a stub pipe"})
			}
			schedYield(fr)
			if e.p.rclosed {
				return tuple{0, epipeError(fr)}
			}
			e.p.buf = append(e.p.buf, b...)
			return tuple{len(b), iface{}}
		},
	},
}

type pipeObj struct {
	buf              []value
	wclosed, rclosed bool
}

type pipeEnd struct {
	p     *pipeObj
	write bool
}

func pipeEndOf(fr *frame, f value) *pipeEnd {
	p, ok := f.(*value)
	if !ok || p == nil {
		return nil
	}
	st, ok := (*p).(structure)
	if !ok || len(st) == 0 {
		return nil
	}
	e, _ := st[0].(*pipeEnd)
	return e
}

func loadGlobalErr(fr *frame, pkg, name string) value {
	p := fr.i.prog.ImportedPackage(pkg)
	if p == nil {
		panic(pathEnd{stUnsupported, "package " + pkg + " not loaded"})
	}
	g, ok := p.Members[name].(*ssa.Global)
	if !ok {
		panic(pathEnd{stUnsupported, "no global " + pkg + "." + name})
	}
	return *fr.i.globalAddr(g)
}

// stubbable: functions some harness may stub must not be cached as "no
// external" by a path that runs without that stub set.
var stubbable = map[string]bool{}

func inAnyStubSet(name string) bool {
	return stubbable[name] || name == "strconv.ParseFloat" || name == "strconv.ParseInt"
}

func init() {
	for _, set := range stubSets {
		for k := range set {
			stubbable[k] = true
		}
	}
}

// sprintfSymbolic handles formats made of plain verbs (%c %s %v %d %%) whose
// operands are concrete, symbolic runes (for %c) or symbolic-byte strings (for
// %s / %v): the result is assembled piecewise, so it stays a string of
// symbolic bytes instead of an abstract string.
func sprintfSymbolic(fr *frame, f string, as []value) (value, bool) {
	var out []value
	emit := func(s string) {
		for k := 0; k < len(s); k++ {
			out = append(out, s[k])
		}
	}
	idx := 0
	for k := 0; k < len(f); k++ {
		if f[k] != '%' {
			out = append(out, f[k])
			continue
		}
		k++
		if k >= len(f) {
			return nil, false
		}
		if f[k] == '%' {
			out = append(out, byte('%'))
			continue
		}
		if idx >= len(as) {
			return nil, false
		}
		a := as[idx]
		idx++
		if x, ok := a.(iface); ok {
			a = x.v
		}
		switch f[k] {
		case 'c':
			switch r := a.(type) {
			case int32:
				emit(string(r))
			case *Term:
				out = append(out, strBytes(runeToString(fr, r))...)
			default:
				return nil, false
			}
		case 's', 'v':
			switch x := a.(type) {
			case string:
				emit(x)
			case sstr:
				out = append(out, x.b...)
			default:
				done := false
				if x, isI := as[idx-1].(iface); isI && x.t != nil {
					for _, mname := range []string{"Error", "String"} {
						if m := findMethod(fr.i, x.t, mname); m != nil && m.Signature.Params().Len() == 0 && m.Signature.Results().Len() == 1 {
							switch r := callSSA(fr.i, fr, token.NoPos, m, []value{x.v}, nil).(type) {
							case string:
								emit(r)
								done = true
							case sstr:
								out = append(out, r.b...)
								done = true
							}
							break
						}
					}
				}
				if !done {
					n, ok := toNative(fr, as[idx-1], 0)
					if !ok {
						return nil, false
					}
					emit(fmt.Sprintf("%"+string(f[k]), n))
				}
			}
		case 'd':
			if t, isTerm := a.(*Term); isTerm && fr.i.p != nil {
				// a symbolic integer: enumerate its feasible values
				var st types.Type
				if x, ok := as[idx-1].(iface); ok {
					st = x.t
				}
				emit(fmt.Sprintf("%d", fr.toInt(t, st)))
				break
			}
			n, ok := toNative(fr, as[idx-1], 0)
			if !ok {
				return nil, false
			}
			emit(fmt.Sprintf("%d", n))
		default:
			return nil, false
		}
	}
	if idx != len(as) {
		return nil, false
	}
	return mkStr(out), true
}

// epipeError builds &fs.PathError{Op: "write", Path: "|1", Err: syscall.EPIPE},
// what (*os.File).Write returns for a pipe whose reader is gone.
func epipeError(fr *frame) value {
	fp := fr.i.prog.ImportedPackage("io/fs")
	sp := fr.i.prog.ImportedPackage("syscall")
	if fp == nil || sp == nil {
		return fr.i.mkError("write |1: broken pipe")
	}
	pt := fp.Type("PathError").Object().Type()
	et := sp.Type("Errno").Object().Type()
	var cell value = structure{"write", "|1", iface{t: et, v: uintptr(0x20)}}
	return iface{t: types.NewPointer(pt), v: &cell}
}
