package main

// Summaries of pure scalar leaf functions (§2.3 of DESIGN.md): the callee is
// explored once per worker on fresh symbols by a local DFS over the real SSA;
// its (path condition, result) pairs are folded into one ite term which is
// then instantiated at each call site by substitution.

import (
	"fmt"
	"go/token"
	"go/types"

	"golang.org/x/tools/go/ssa"
)

type fnSummary struct {
	params []*Term
	result *Term
	typ    types.Type
	failed string
}

// summarizable functions (pure, scalar in / scalar out, many internal paths).
var summarizable = map[string]bool{
	"src.elv.sh/pkg/wcwidth.OfRune": true,
}

func (i *interpreter) trySummary(fr *frame, fn *ssa.Function, args []value) (value, bool) {
	if i.p == nil || !summarizable[fn.String()] || i.inSummary {
		return nil, false
	}
	anySym := false
	for _, a := range args {
		switch a.(type) {
		case *Term:
			anySym = true
		case bool, int, int8, int16, int32, int64, uint, uint8, uint16, uint32, uint64, uintptr:
		default:
			return nil, false
		}
	}
	if !anySym {
		return nil, false
	}
	if i.summaries == nil {
		i.summaries = map[*ssa.Function]*fnSummary{}
	}
	sm := i.summaries[fn]
	if sm == nil {
		sm = i.w.summarize(fn)
		i.summaries[fn] = sm
		i.noteIntercept("summary:" + fn.String())
	}
	if sm.failed != "" {
		return nil, false
	}
	tt := i.w.tt
	sub := map[int]*Term{}
	for k, p := range sm.params {
		sub[p.id] = fr.termOf(args[k])
	}
	r := tt.Subst(sm.result, sub, map[int]*Term{})
	return fr.valueOfTerm(r, sm.typ), true
}

// Subst replaces variables (by term id) in t.
func (tt *TermTable) Subst(t *Term, sub map[int]*Term, memo map[int]*Term) *Term {
	if r, ok := sub[t.id]; ok {
		return r
	}
	if len(t.A) == 0 {
		return t
	}
	if r, ok := memo[t.id]; ok {
		return r
	}
	args := make([]*Term, len(t.A))
	changed := false
	for i, a := range t.A {
		args[i] = tt.Subst(a, sub, memo)
		if args[i] != a {
			changed = true
		}
	}
	r := t
	if changed {
		if t.Op == OUF {
			r = tt.UF(t.Name, t.Sort, args...)
		} else {
			r = tt.Mk(t.Op, t.Sort, t.C, args...)
		}
	}
	memo[t.id] = r
	return r
}

func (w *Worker) summarize(fn *ssa.Function) *fnSummary {
	i := w.interp
	sm := &fnSummary{}
	sig := fn.Signature
	if sig.Results().Len() != 1 {
		sm.failed = "not a single result"
		return sm
	}
	sm.typ = sig.Results().At(0).Type()
	rs, ok := sortOfType(sm.typ)
	if !ok {
		sm.failed = "non-scalar result"
		return sm
	}
	var args []value
	for k := 0; k < sig.Params().Len(); k++ {
		s, ok := sortOfType(sig.Params().At(k).Type())
		if !ok {
			sm.failed = "non-scalar parameter"
			return sm
		}
		v := w.tt.Var(fmt.Sprintf("sum:%s:%d", fn.Name(), k), s)
		sm.params = append(sm.params, v)
		args = append(args, v)
	}
	savedPath := i.p
	savedLocal := w.local
	i.inSummary = true
	defer func() {
		i.p = savedPath
		w.local = savedLocal
		i.inSummary = false
		if w.inc != nil {
			w.inc.Begin() // outer path condition is re-asserted lazily
		}
	}()
	dummy := &Case{H: &HarnessSpec{Func: "summary:" + fn.String()}, MaxSteps: 1_000_000}
	queue := [][]Decision{nil}
	w.local = &queue
	type res struct {
		pc  []*Term
		val *Term
	}
	var results []res
	for len(queue) > 0 {
		prefix := queue[len(queue)-1]
		queue = queue[:len(queue)-1]
		if len(results) > 5000 {
			sm.failed = "too many paths"
			return sm
		}
		p := &Path{w: w, c: dummy, prefix: prefix, maxSteps: dummy.MaxSteps, asserts: map[string]int{}}
		p.models = []*cachedModel{{m: Model{}, memo: map[int]*cval{}, valid: true}}
		p.extraVars = sm.params
		i.p = p
		if w.inc != nil {
			w.inc.Begin()
		}
		var out value
		failed := ""
		func() {
			defer func() {
				if r := recover(); r != nil {
					if pe, ok := r.(pathEnd); ok && pe.status == stInfeasible {
						failed = "-"
						return
					}
					failed = panicText(r)
				}
			}()
			out = callSSA(i, nil, token.NoPos, fn, args, nil)
		}()
		if failed == "-" {
			continue
		}
		if failed != "" {
			sm.failed = failed
			return sm
		}
		fr := &frame{i: i}
		results = append(results, res{append([]*Term{}, p.pc...), fr.termOf(out)})
	}
	// group by result value (constants first), fold into ite
	tt := w.tt
	groups := map[int][]*Term{}
	var order []*Term
	for _, r := range results {
		if _, ok := groups[r.val.id]; !ok {
			order = append(order, r.val)
		}
		groups[r.val.id] = append(groups[r.val.id], tt.And(r.pc...))
	}
	if len(order) == 0 {
		sm.failed = "no complete path"
		return sm
	}
	acc := order[len(order)-1]
	for k := len(order) - 2; k >= 0; k-- {
		acc = tt.Mk(OIte, rs, 0, tt.Or(groups[order[k].id]...), order[k], acc)
	}
	sm.result = acc
	return sm
}
