// Copyright 2013 The Go Authors. All rights reserved.
// Use of this source code is governed by a BSD-style
// license that can be found in the LICENSE file.

package main

// Emulated "reflect" package.
//
// We completely replace the built-in "reflect" package.
// The only thing clients can depend upon are that reflect.Type is an
// interface and reflect.Value is an (opaque) struct.

import (
	"sync"
	"fmt"
	"go/token"
	"go/types"
	"reflect"
	"unsafe"

	"golang.org/x/tools/go/ssa"
)

type opaqueType struct {
	types.Type
	name string
}

func (t *opaqueType) String() string { return t.name }

// A bogus "reflect" type-checker package.  Shared across interpreters.
var reflectTypesPackage = types.NewPackage("reflect", "reflect")

// rtype is the concrete type the interpreter uses to implement the
// reflect.Type interface.
//
// type rtype <opaque>
var rtypeType = makeNamedType("rtype", &opaqueType{nil, "rtype"})

// error is an (interpreted) named type whose underlying type is string.
// The interpreter uses it for all implementations of the built-in error
// interface that it creates.
// We put it in the "reflect" package for expedience.
//
// type error string
var errorType = makeNamedType("error", &opaqueType{nil, "error"})

func makeNamedType(name string, underlying types.Type) *types.Named {
	obj := types.NewTypeName(token.NoPos, reflectTypesPackage, name, nil)
	return types.NewNamed(obj, underlying, nil)
}

func makeReflectValue(t types.Type, v value) value {
	return structure{rtype{t}, v}
}

// Given a reflect.Value, returns its rtype.
func rV2T(v value) rtype {
	return v.(structure)[0].(rtype)
}

// Given a reflect.Value, returns the underlying interpreter value (through
// the address for addressable Values, so that it is always current).
func rV2V(v value) value {
	st := v.(structure)
	if len(st) == 3 {
		if p, ok := st[2].(*value); ok && p != nil {
			return *p
		}
	}
	return st[1]
}

// makeReflectValueAddr makes an addressable reflect.Value for the variable *p.
func makeReflectValueAddr(t types.Type, p *value) value {
	return structure{rtype{t}, *p, p}
}

func rVAddr(v value) *value {
	st := v.(structure)
	if len(st) == 3 {
		if p, ok := st[2].(*value); ok {
			return p
		}
	}
	return nil
}

// makeReflectType boxes up an rtype in a reflect.Type interface.
func makeReflectType(rt rtype) value {
	return iface{rtypeType, rt}
}

func ext۰reflect۰rtype۰Bits(fr *frame, args []value) value {
	// Signature: func (t reflect.rtype) int
	rt := args[0].(rtype).t
	basic, ok := rt.Underlying().(*types.Basic)
	if !ok {
		panic(fmt.Sprintf("reflect.Type.Bits(%T): non-basic type", rt))
	}
	return int(fr.i.sizes.Sizeof(basic)) * 8
}

func ext۰reflect۰rtype۰Elem(fr *frame, args []value) value {
	// Signature: func (t reflect.rtype) reflect.Type
	return makeReflectType(rtype{args[0].(rtype).t.Underlying().(interface {
		Elem() types.Type
	}).Elem()})
}

func ext۰reflect۰rtype۰Field(fr *frame, args []value) value {
	// Signature: func (t reflect.rtype, i int) reflect.StructField
	st := args[0].(rtype).t.Underlying().(*types.Struct)
	i := args[1].(int)
	f := st.Field(i)
	return structure{
		f.Name(),
		f.Pkg().Path(),
		makeReflectType(rtype{f.Type()}),
		st.Tag(i),
		0,         // TODO(adonovan): offset
		[]value{}, // TODO(adonovan): indices
		f.Anonymous(),
	}
}

func ext۰reflect۰rtype۰In(fr *frame, args []value) value {
	// Signature: func (t reflect.rtype, i int) int
	i := args[1].(int)
	return makeReflectType(rtype{args[0].(rtype).t.Underlying().(*types.Signature).Params().At(i).Type()})
}

func ext۰reflect۰rtype۰Kind(fr *frame, args []value) value {
	// Signature: func (t reflect.rtype) uint
	return uint(reflectKind(args[0].(rtype).t))
}

func ext۰reflect۰rtype۰NumField(fr *frame, args []value) value {
	// Signature: func (t reflect.rtype) int
	return args[0].(rtype).t.Underlying().(*types.Struct).NumFields()
}

func ext۰reflect۰rtype۰NumIn(fr *frame, args []value) value {
	// Signature: func (t reflect.rtype) int
	return args[0].(rtype).t.Underlying().(*types.Signature).Params().Len()
}

func ext۰reflect۰rtype۰NumMethod(fr *frame, args []value) value {
	// Signature: func (t reflect.rtype) int
	return fr.i.prog.MethodSets.MethodSet(args[0].(rtype).t).Len()
}

func ext۰reflect۰rtype۰NumOut(fr *frame, args []value) value {
	// Signature: func (t reflect.rtype) int
	return args[0].(rtype).t.Underlying().(*types.Signature).Results().Len()
}

func ext۰reflect۰rtype۰Out(fr *frame, args []value) value {
	// Signature: func (t reflect.rtype, i int) int
	i := args[1].(int)
	return makeReflectType(rtype{args[0].(rtype).t.Underlying().(*types.Signature).Results().At(i).Type()})
}

func ext۰reflect۰rtype۰Size(fr *frame, args []value) value {
	// Signature: func (t reflect.rtype) uintptr
	return uintptr(fr.i.sizes.Sizeof(args[0].(rtype).t))
}

func ext۰reflect۰rtype۰String(fr *frame, args []value) value {
	// Signature: func (t reflect.rtype) string
	return args[0].(rtype).t.String()
}

func ext۰reflect۰New(fr *frame, args []value) value {
	// Signature: func (t reflect.Type) reflect.Value
	t := args[0].(iface).v.(rtype).t
	alloc := zero(t)
	return makeReflectValue(types.NewPointer(t), &alloc)
}

func ext۰reflect۰SliceOf(fr *frame, args []value) value {
	// Signature: func (t reflect.rtype) Type
	return makeReflectType(rtype{types.NewSlice(args[0].(iface).v.(rtype).t)})
}

func ext۰reflect۰TypeOf(fr *frame, args []value) value {
	// Signature: func (t reflect.rtype) Type
	return makeReflectType(rtype{args[0].(iface).t})
}

func ext۰reflect۰ValueOf(fr *frame, args []value) value {
	// Signature: func (interface{}) reflect.Value
	itf := args[0].(iface)
	return makeReflectValue(itf.t, itf.v)
}

func ext۰reflect۰Zero(fr *frame, args []value) value {
	// Signature: func (t reflect.Type) reflect.Value
	t := args[0].(iface).v.(rtype).t
	return makeReflectValue(t, zero(t))
}

func reflectKind(t types.Type) reflect.Kind {
	switch t := t.(type) {
	case *types.Named, *types.Alias:
		return reflectKind(t.Underlying())
	case *types.Basic:
		switch t.Kind() {
		case types.Bool:
			return reflect.Bool
		case types.Int:
			return reflect.Int
		case types.Int8:
			return reflect.Int8
		case types.Int16:
			return reflect.Int16
		case types.Int32:
			return reflect.Int32
		case types.Int64:
			return reflect.Int64
		case types.Uint:
			return reflect.Uint
		case types.Uint8:
			return reflect.Uint8
		case types.Uint16:
			return reflect.Uint16
		case types.Uint32:
			return reflect.Uint32
		case types.Uint64:
			return reflect.Uint64
		case types.Uintptr:
			return reflect.Uintptr
		case types.Float32:
			return reflect.Float32
		case types.Float64:
			return reflect.Float64
		case types.Complex64:
			return reflect.Complex64
		case types.Complex128:
			return reflect.Complex128
		case types.String:
			return reflect.String
		case types.UnsafePointer:
			return reflect.UnsafePointer
		}
	case *types.Array:
		return reflect.Array
	case *types.Chan:
		return reflect.Chan
	case *types.Signature:
		return reflect.Func
	case *types.Interface:
		return reflect.Interface
	case *types.Map:
		return reflect.Map
	case *types.Pointer:
		return reflect.Ptr
	case *types.Slice:
		return reflect.Slice
	case *types.Struct:
		return reflect.Struct
	}
	panic(fmt.Sprint("unexpected type: ", t))
}

func ext۰reflect۰Value۰Kind(fr *frame, args []value) value {
	// Signature: func (reflect.Value) uint
	return uint(reflectKind(rV2T(args[0]).t))
}

func ext۰reflect۰Value۰String(fr *frame, args []value) value {
	// Signature: func (reflect.Value) string
	return toString(rV2V(args[0]))
}

func ext۰reflect۰Value۰Type(fr *frame, args []value) value {
	// Signature: func (reflect.Value) reflect.Type
	return makeReflectType(rV2T(args[0]))
}

func ext۰reflect۰Value۰Uint(fr *frame, args []value) value {
	// Signature: func (reflect.Value) uint64
	switch v := rV2V(args[0]).(type) {
	case uint:
		return uint64(v)
	case uint8:
		return uint64(v)
	case uint16:
		return uint64(v)
	case uint32:
		return uint64(v)
	case uint64:
		return uint64(v)
	case uintptr:
		return uint64(v)
	}
	panic("reflect.Value.Uint")
}

func ext۰reflect۰Value۰Len(fr *frame, args []value) value {
	// Signature: func (reflect.Value) int
	switch v := rV2V(args[0]).(type) {
	case string:
		return len(v)
	case array:
		return len(v)
	case *chanObj:
		return chanLen(v)
	case []value:
		return len(v)
	case *omap:
		return v.len()
	default:
		panic(fmt.Sprintf("reflect.(Value).Len(%v)", v))
	}
}

func ext۰reflect۰Value۰MapIndex(fr *frame, args []value) value {
	// Signature: func (reflect.Value) Value
	_ = 0
	k := rV2V(args[1])
	switch m := rV2V(args[0]).(type) {
	case *omap:
		if e := m.find(fr, k); e != nil {
			return makeReflectValue(rV2T(args[0]).t.Underlying().(*types.Map).Elem(), e.val)
		}

	default:
		panic(fmt.Sprintf("(reflect.Value).MapIndex(%T, %T)", m, k))
	}
	return makeReflectValue(nil, nil)
}

func ext۰reflect۰Value۰MapKeys(fr *frame, args []value) value {
	// Signature: func (reflect.Value) []Value
	var keys []value
	tKey := rV2T(args[0]).t.Underlying().(*types.Map).Key()
	switch v := rV2V(args[0]).(type) {
	case *omap:
		if v != nil {
			for _, e := range v.entries {
				keys = append(keys, makeReflectValue(tKey, e.key))
			}
		}

	default:
		panic(fmt.Sprintf("(reflect.Value).MapKeys(%T)", v))
	}
	return keys
}

func ext۰reflect۰Value۰NumField(fr *frame, args []value) value {
	// Signature: func (reflect.Value) int
	return len(rV2V(args[0]).(structure))
}

func ext۰reflect۰Value۰NumMethod(fr *frame, args []value) value {
	// Signature: func (reflect.Value) int
	return fr.i.prog.MethodSets.MethodSet(rV2T(args[0]).t).Len()
}

func ext۰reflect۰Value۰Pointer(fr *frame, args []value) value {
	// Signature: func (v reflect.Value) uintptr
	switch v := rV2V(args[0]).(type) {
	case *value:
		return uintptr(unsafe.Pointer(v))
	case *chanObj:
		return uintptr(unsafe.Pointer(v))
	case []value:
		return reflect.ValueOf(v).Pointer()
	case *omap:
		return uintptr(unsafe.Pointer(v))
	case *ssa.Function:
		return uintptr(unsafe.Pointer(v))
	case *closure:
		return uintptr(unsafe.Pointer(v))
	default:
		panic(fmt.Sprintf("reflect.(Value).Pointer(%T)", v))
	}
}

func ext۰reflect۰Value۰Index(fr *frame, args []value) value {
	// Signature: func (v reflect.Value, i int) Value
	i := args[1].(int)
	t := rV2T(args[0]).t.Underlying()
	switch v := rV2V(args[0]).(type) {
	case array:
		return makeReflectValue(t.(*types.Array).Elem(), v[i])
	case []value:
		if i < 0 || i >= len(v) {
			panic(targetPanic{iface{fr.i.runtimeErrorString, "reflect: slice index out of range"}})
		}
		return makeReflectValueAddr(t.(*types.Slice).Elem(), &v[i])
	default:
		panic(fmt.Sprintf("reflect.(Value).Index(%T)", v))
	}
}

func ext۰reflect۰Value۰Bool(fr *frame, args []value) value {
	// Signature: func (reflect.Value) bool
	return rV2V(args[0]).(bool)
}

func ext۰reflect۰Value۰CanSet(fr *frame, args []value) value {
	return rVAddr(args[0]) != nil
}

func ext۰reflect۰Value۰CanAddr0(fr *frame, args []value) value {
	// Signature: func (v reflect.Value) bool
	// Always false for our representation.
	return false
}

func ext۰reflect۰Value۰CanInterface(fr *frame, args []value) value {
	// Signature: func (v reflect.Value) bool
	// Always true for our representation.
	return true
}

func ext۰reflect۰Value۰Elem(fr *frame, args []value) value {
	// Signature: func (v reflect.Value) reflect.Value
	switch x := rV2V(args[0]).(type) {
	case iface:
		return makeReflectValue(x.t, x.v)
	case *value:
		et := rV2T(args[0]).t.Underlying().(*types.Pointer).Elem()
		if x == nil {
			return structure{rtype{nil}, nil}
		}
		return makeReflectValueAddr(et, x)
	default:
		panic(fmt.Sprintf("reflect.(Value).Elem(%T)", x))
	}
}

func ext۰reflect۰Value۰Field(fr *frame, args []value) value {
	// Signature: func (v reflect.Value, i int) reflect.Value
	v := args[0]
	i := args[1].(int)
	ft := rV2T(v).t.Underlying().(*types.Struct).Field(i).Type()
	if rVAddr(v) != nil {
		return makeReflectValueAddr(ft, &rV2V(v).(structure)[i])
	}
	return makeReflectValue(ft, rV2V(v).(structure)[i])
}

func ext۰reflect۰Value۰Float(fr *frame, args []value) value {
	// Signature: func (reflect.Value) float64
	switch v := rV2V(args[0]).(type) {
	case float32:
		return float64(v)
	case float64:
		return float64(v)
	}
	panic("reflect.Value.Float")
}

func ext۰reflect۰Value۰Interface(fr *frame, args []value) value {
	// Signature: func (v reflect.Value) interface{}
	return ext۰reflect۰valueInterface(fr, args)
}

func ext۰reflect۰Value۰Int(fr *frame, args []value) value {
	// Signature: func (reflect.Value) int64
	switch x := rV2V(args[0]).(type) {
	case int:
		return int64(x)
	case int8:
		return int64(x)
	case int16:
		return int64(x)
	case int32:
		return int64(x)
	case int64:
		return x
	default:
		panic(fmt.Sprintf("reflect.(Value).Int(%T)", x))
	}
}

func ext۰reflect۰Value۰IsNil(fr *frame, args []value) value {
	// Signature: func (reflect.Value) bool
	switch x := rV2V(args[0]).(type) {
	case *value:
		return x == nil
	case *chanObj:
		return x == nil
	case *omap:
		return x == nil
	case iface:
		return x.t == nil
	case []value:
		return x == nil
	case *ssa.Function:
		return x == nil
	case *ssa.Builtin:
		return x == nil
	case *closure:
		return x == nil
	default:
		panic(fmt.Sprintf("reflect.(Value).IsNil(%T)", x))
	}
}

func ext۰reflect۰Value۰IsValid(fr *frame, args []value) value {
	// Signature: func (reflect.Value) bool
	return rV2V(args[0]) != nil
}

func ext۰reflect۰Value۰Set(fr *frame, args []value) value {
	p := rVAddr(args[0])
	if p == nil {
		panic(targetPanic{iface{fr.i.runtimeErrorString, "reflect: reflect.Value.Set using unaddressable value"}})
	}
	dt := rV2T(args[0]).t
	x := args[1]
	xv := copyVal(rV2V(x))
	if _, dstI := dt.Underlying().(*types.Interface); dstI {
		if _, srcI := rV2T(x).t.Underlying().(*types.Interface); !srcI {
			xv = iface{rV2T(x).t, xv}
		}
	}
	*p = xv
	return nil
}

func ext۰reflect۰Value۰SetZero(fr *frame, args []value) value {
	p := rVAddr(args[0])
	if p == nil {
		panic(targetPanic{iface{fr.i.runtimeErrorString, "reflect: reflect.Value.SetZero using unaddressable value"}})
	}
	*p = zero(rV2T(args[0]).t)
	return nil
}

func ext۰reflect۰Value۰Addr(fr *frame, args []value) value {
	p := rVAddr(args[0])
	if p == nil {
		panic(targetPanic{iface{fr.i.runtimeErrorString, "reflect.Value.Addr of unaddressable value"}})
	}
	return makeReflectValue(types.NewPointer(rV2T(args[0]).t), p)
}

func ext۰reflect۰MakeSlice(fr *frame, args []value) value {
	t := args[0].(iface).v.(rtype).t
	n, c := args[1].(int), args[2].(int)
	if n < 0 || c < n || c > 1<<20 {
		panic(targetPanic{iface{fr.i.runtimeErrorString, "reflect.MakeSlice: bad len or cap"}})
	}
	et := t.Underlying().(*types.Slice).Elem()
	sl := make([]value, n, c)
	for k := range sl {
		sl[k] = zero(et)
	}
	return makeReflectValue(t, sl)
}

func ext۰reflect۰valueInterface(fr *frame, args []value) value {
	// Signature: func (v reflect.Value, safe bool) interface{}
	v := args[0].(structure)
	if _, isI := rV2T(v).t.Underlying().(*types.Interface); isI {
		// a Value of interface kind (from Elem of a pointer to interface):
		// Interface() returns the dynamic value, not a nested interface
		if x, ok := rV2V(v).(iface); ok {
			return x
		}
		return iface{}
	}
	return iface{rV2T(v).t, rV2V(v)}
}

func ext۰reflect۰error۰Error(fr *frame, args []value) value {
	return args[0]
}

// newMethod creates a new method of the specified name, package and receiver type.
func newMethod(pkg *ssa.Package, recvType types.Type, name string) *ssa.Function {
	// TODO(adonovan): fix: hack: currently the only part of Signature
	// that is needed is the "pointerness" of Recv.Type, and for
	// now, we'll set it to always be false since we're only
	// concerned with rtype.  Encapsulate this better.
	sig := types.NewSignature(types.NewVar(token.NoPos, nil, "recv", recvType), nil, nil, false)
	fn := pkg.Prog.NewFunction(name, sig, "fake reflect method")
	fn.Pkg = pkg
	return fn
}

var (
	reflectOnce   sync.Once
	sharedReflect struct {
		pkg          *ssa.Package
		rtypeMethods methodSet
		errorMethods methodSet
	}
)

func initReflectOnce(prog *ssa.Program) {
	reflectOnce.Do(func() {
		i := &interpreter{prog: prog}
		initReflect0(i)
		sharedReflect.pkg = i.reflectPackage
		sharedReflect.rtypeMethods = i.rtypeMethods
		sharedReflect.errorMethods = i.errorMethods
	})
}

func initReflect(i *interpreter) {
	initReflectOnce(i.prog)
	i.reflectPackage = sharedReflect.pkg
	i.rtypeMethods = sharedReflect.rtypeMethods
	i.errorMethods = sharedReflect.errorMethods
}

func initReflect0(i *interpreter) {
	i.reflectPackage = &ssa.Package{
		Prog:    i.prog,
		Pkg:     reflectTypesPackage,
		Members: make(map[string]ssa.Member),
	}

	// Clobber the type-checker's notion of reflect.Value's
	// underlying type so that it more closely matches the fake one
	// (at least in the number of fields---we lie about the type of
	// the rtype field).
	//
	// We must ensure that calls to (ssa.Value).Type() return the
	// fake type so that correct "shape" is used when allocating
	// variables, making zero values, loading, and storing.
	//
	// TODO(adonovan): obviously this is a hack.  We need a cleaner
	// way to fake the reflect package (almost---DeepEqual is fine).
	// One approach would be not to even load its source code, but
	// provide fake source files.  This would guarantee that no bad
	// information leaks into other packages.
	if r := i.prog.ImportedPackage("reflect"); r != nil {
		rV := r.Pkg.Scope().Lookup("Value").Type().(*types.Named)

		// delete bodies of the old methods
		mset := i.prog.MethodSets.MethodSet(rV)
		for j := 0; j < mset.Len(); j++ {
			i.prog.MethodValue(mset.At(j)).Blocks = nil
		}

		tEface := types.NewInterface(nil, nil).Complete()
		rV.SetUnderlying(types.NewStruct([]*types.Var{
			types.NewField(token.NoPos, r.Pkg, "t", tEface, false), // a lie
			types.NewField(token.NoPos, r.Pkg, "v", tEface, false),
		}, nil))
	}

	i.rtypeMethods = methodSet{
		"Bits":      newMethod(i.reflectPackage, rtypeType, "Bits"),
		"Elem":      newMethod(i.reflectPackage, rtypeType, "Elem"),
		"Field":     newMethod(i.reflectPackage, rtypeType, "Field"),
		"In":        newMethod(i.reflectPackage, rtypeType, "In"),
		"Kind":      newMethod(i.reflectPackage, rtypeType, "Kind"),
		"NumField":  newMethod(i.reflectPackage, rtypeType, "NumField"),
		"NumIn":     newMethod(i.reflectPackage, rtypeType, "NumIn"),
		"NumMethod": newMethod(i.reflectPackage, rtypeType, "NumMethod"),
		"NumOut":    newMethod(i.reflectPackage, rtypeType, "NumOut"),
		"Out":       newMethod(i.reflectPackage, rtypeType, "Out"),
		"Size":      newMethod(i.reflectPackage, rtypeType, "Size"),
		"String":    newMethod(i.reflectPackage, rtypeType, "String"),

		"Method":       newMethod(i.reflectPackage, rtypeType, "Method"),
		"IsVariadic":   newMethod(i.reflectPackage, rtypeType, "IsVariadic"),
		"Name":         newMethod(i.reflectPackage, rtypeType, "Name"),
		"PkgPath":      newMethod(i.reflectPackage, rtypeType, "PkgPath"),
		"Implements":   newMethod(i.reflectPackage, rtypeType, "Implements"),
		"AssignableTo": newMethod(i.reflectPackage, rtypeType, "AssignableTo"),
	}
	i.errorMethods = methodSet{
		"Error": newMethod(i.reflectPackage, errorType, "Error"),
	}
}

func ext۰reflect۰rtype۰IsVariadic(fr *frame, args []value) value {
	return args[0].(rtype).t.Underlying().(*types.Signature).Variadic()
}

func ext۰reflect۰rtype۰Name(fr *frame, args []value) value {
	switch t := args[0].(rtype).t.(type) {
	case *types.Named:
		return t.Obj().Name()
	case *types.Basic:
		return t.Name()
	case *types.Alias:
		return t.Obj().Name()
	}
	return ""
}

func ext۰reflect۰rtype۰PkgPath(fr *frame, args []value) value {
	if t, ok := args[0].(rtype).t.(*types.Named); ok && t.Obj().Pkg() != nil {
		return t.Obj().Pkg().Path()
	}
	return ""
}

func ext۰reflect۰rtype۰Implements(fr *frame, args []value) value {
	u := args[1].(iface).v.(rtype).t
	it, ok := u.Underlying().(*types.Interface)
	if !ok {
		panic(targetPanic{iface{fr.i.runtimeErrorString, "reflect: non-interface type passed to Type.Implements"}})
	}
	return types.Implements(args[0].(rtype).t, it)
}

func ext۰reflect۰rtype۰AssignableTo(fr *frame, args []value) value {
	return types.AssignableTo(args[0].(rtype).t, args[1].(iface).v.(rtype).t)
}

func ext۰reflect۰PointerTo(fr *frame, args []value) value {
	return makeReflectType(rtype{types.NewPointer(args[0].(iface).v.(rtype).t)})
}

// (reflect.Value).Call: calls the function value with the unwrapped arguments
// (packing the variadic tail) and wraps the results with their static types.
func ext۰reflect۰Value۰Call(fr *frame, args []value) value {
	sig := rV2T(args[0]).t.Underlying().(*types.Signature)
	fn := rV2V(args[0])
	in := args[1].([]value)
	np := sig.Params().Len()
	var cargs []value
	for k, a := range in {
		if sig.Variadic() && k >= np-1 {
			break
		}
		cargs = append(cargs, copyVal(rV2V(a)))
	}
	if sig.Variadic() {
		var tail []value
		for k := np - 1; k < len(in); k++ {
			tail = append(tail, copyVal(rV2V(in[k])))
		}
		cargs = append(cargs, tail)
	} else if len(in) != np {
		panic(targetPanic{iface{fr.i.runtimeErrorString, "reflect: Call with wrong number of input arguments"}})
	}
	res := call(fr.i, fr, 0, fn, cargs)
	nr := sig.Results().Len()
	out := make([]value, 0, nr)
	switch nr {
	case 0:
	case 1:
		out = append(out, makeReflectValue(sig.Results().At(0).Type(), res))
	default:
		for k, r := range res.(tuple) {
			out = append(out, makeReflectValue(sig.Results().At(k).Type(), r))
		}
	}
	return out
}

// (reflect.rtype).Method(i): exported methods in name order; Type has the
// receiver as its first parameter (as for non-interface types).
func ext۰reflect۰rtype۰Method(fr *frame, args []value) value {
	t := args[0].(rtype).t
	k := args[1].(int)
	mset := fr.i.prog.MethodSets.MethodSet(t)
	var sels []*types.Selection
	for j := 0; j < mset.Len(); j++ {
		if mset.At(j).Obj().Exported() {
			sels = append(sels, mset.At(j))
		}
	}
	if k < 0 || k >= len(sels) {
		panic(targetPanic{iface{fr.i.runtimeErrorString, "reflect: Method index out of range"}})
	}
	sel := sels[k]
	sig := sel.Type().(*types.Signature)
	var params []*types.Var
	if _, isI := t.Underlying().(*types.Interface); !isI {
		params = append(params, types.NewVar(token.NoPos, nil, "recv", t))
	}
	for j := 0; j < sig.Params().Len(); j++ {
		params = append(params, sig.Params().At(j))
	}
	ft := types.NewSignatureType(nil, nil, nil, types.NewTuple(params...), sig.Results(), sig.Variadic())
	return structure{sel.Obj().Name(), "", makeReflectType(rtype{ft}), makeReflectValue(ft, nil), k}
}

func exportedMethods(fr *frame, t types.Type) []*types.Selection {
	mset := fr.i.prog.MethodSets.MethodSet(t)
	var sels []*types.Selection
	for j := 0; j < mset.Len(); j++ {
		if mset.At(j).Obj().Exported() {
			sels = append(sels, mset.At(j))
		}
	}
	return sels
}

// (reflect.Value).Method(i): a function value bound to the receiver.
func ext۰reflect۰Value۰Method(fr *frame, args []value) value {
	t := rV2T(args[0]).t
	recv := rV2V(args[0])
	k := args[1].(int)
	if it, isI := t.Underlying().(*types.Interface); isI {
		_ = it
		x, ok := recv.(iface)
		if !ok || x.t == nil {
			panic(targetPanic{iface{fr.i.runtimeErrorString, "reflect: Method on nil interface value"}})
		}
		t, recv = x.t, x.v
	}
	sels := exportedMethods(fr, t)
	if k < 0 || k >= len(sels) {
		panic(targetPanic{iface{fr.i.runtimeErrorString, "reflect: Method index out of range"}})
	}
	fn := fr.i.prog.MethodValue(sels[k])
	if fn == nil {
		panic(pathEnd{stUnsupported, "reflect.Value.Method: no method value"})
	}
	sig := sels[k].Type().(*types.Signature)
	ft := types.NewSignatureType(nil, nil, nil, sig.Params(), sig.Results(), sig.Variadic())
	bound := &nativeFn{name: "bound:" + fn.String(), f: func(fr2 *frame, a []value) value {
		return callSSA(fr2.i, fr2, 0, fn, append([]value{copyVal(recv)}, a...), nil)
	}}
	return makeReflectValue(ft, bound)
}

func ext۰reflect۰Value۰NumMethodExported(fr *frame, args []value) value {
	return len(exportedMethods(fr, rV2T(args[0]).t))
}

func ext۰reflect۰Value۰CanAddr1(fr *frame, args []value) value {
	return rVAddr(args[0]) != nil
}
