// Copyright 2013 The Go Authors. All rights reserved.
// Use of this source code is governed by a BSD-style
// license that can be found in the LICENSE file.
//
// This file started as golang.org/x/tools/go/ssa/interp (v0.29.0) and was
// turned into a symbolic executor: scalars may be SMT terms, branches on
// symbolic conditions fork, run-time panics are explicit and reported.

package main

import (
	"fmt"
	"go/token"
	"go/types"
	"os"
	"runtime"
	"runtime/debug"
	"slices"
	"strings"

	"golang.org/x/tools/go/ssa"
)

type continuation int

const (
	kNext continuation = iota
	kReturn
	kJump
)

type methodSet map[string]*ssa.Function

// State of one interpreter instance (one per worker).
type interpreter struct {
	prog               *ssa.Program
	globals            map[*ssa.Global]*value
	pkgInit            map[*ssa.Package]int // 0 not run, 1 running, 2 done
	reflectPackage     *ssa.Package
	errorMethods       methodSet
	rtypeMethods       methodSet
	runtimeErrorString types.Type
	sizes              types.Sizes
	w                  *Worker
	p                  *Path // current path (nil during init)
	initFailures       map[string]bool
	inInit             int
	funcsSeen          map[*ssa.Function]int64
	trace              bool
	sched              *scheduler
	intercepts         map[string]int
	methodCache        map[methodKey]*ssa.Function
	extCache           map[*ssa.Function]externalFn
	extMiss            map[*ssa.Function]bool
	bypass             *ssa.Function // call the real body of this intercepted function once
	vfs                map[string]value // harness file table (vrt.WriteFile), per path
	cwd                string
	pipes              []*pipeObj // stub pipes created on this path
	summaries          map[*ssa.Function]*fnSummary
	inSummary          bool
}

type methodKey struct {
	t  types.Type
	id string
}

type deferred struct {
	fn    value
	args  []value
	instr *ssa.Defer
	tail  *deferred
}

type frame struct {
	i                *interpreter
	caller           *frame
	fn               *ssa.Function
	block, prevBlock *ssa.BasicBlock
	env              map[ssa.Value]value // dynamic values of SSA variables
	locals           []value
	defers           *deferred
	result           value
	panicking        bool
	panic            interface{}
	phitemps         []value // temporaries for parallel phi assignment
	curInstr         ssa.Instruction
	g                *goroutine
}

func mustDeref(t types.Type) types.Type {
	if p, ok := t.Underlying().(*types.Pointer); ok {
		return p.Elem()
	}
	panic(fmt.Sprintf("mustDeref: not a pointer: %v", t))
}

func (fr *frame) get(key ssa.Value) value {
	switch key := key.(type) {
	case nil:
		return nil
	case *ssa.Function, *ssa.Builtin:
		return key
	case *ssa.Const:
		return constValue(key)
	case *ssa.Global:
		return fr.i.globalAddr(key)
	}
	if r, ok := fr.env[key]; ok {
		return r
	}
	panic(fmt.Sprintf("get: no value for %T: %v", key, key.Name()))
}

// globalAddr returns the address of a global, running its package's
// initialiser (tolerantly) on first touch.
func (i *interpreter) globalAddr(g *ssa.Global) *value {
	if r, ok := i.globals[g]; ok {
		if g.Pkg != nil && i.pkgInit[g.Pkg] == 0 {
			i.runInit(g.Pkg)
		}
		return r
	}
	// allocate storage for all globals of the package
	if g.Pkg == nil {
		cell := zero(mustDeref(g.Type()))
		i.globals[g] = &cell
		return &cell
	}
	for _, m := range g.Pkg.Members {
		if v, ok := m.(*ssa.Global); ok {
			cell := zero(mustDeref(v.Type()))
			i.globals[v] = &cell
		}
	}
	if _, ok := i.globals[g]; !ok {
		cell := zero(mustDeref(g.Type()))
		i.globals[g] = &cell
	}
	i.runInit(g.Pkg)
	return i.globals[g]
}

// packages whose init is never run (their globals stay zero).
var initDeny = map[string]bool{
	"runtime": true, "os": true, "syscall": true, "internal/poll": true, "time": true,
	"internal/godebug": true, "reflect": true, "sync": true, "internal/cpu": true,
	"net": true, "os/exec": true, "internal/syscall/unix": true, "os/signal": true,
	"internal/reflectlite": true, "encoding/gob": true, "net/rpc": true, "log": true, "net/http": true,
	"crypto/rand": true, "math/rand": true, "math/rand/v2": true, "internal/bisect": true,
	"go.etcd.io/bbolt": true, "flag": true, "testing": true, "os/user": true,
	"src.elv.sh/pkg/eval": false,
}

// runInit executes pkg's synthetic init function instruction by instruction;
// calls to other packages' init are skipped (they run lazily on first touch),
// and a failing instruction poisons only its own result.
func (i *interpreter) runInit(pkg *ssa.Package) {
	if i.pkgInit[pkg] != 0 {
		return
	}
	i.pkgInit[pkg] = 1
	defer func() { i.pkgInit[pkg] = 2 }()
	if initDeny[pkg.Pkg.Path()] {
		return
	}
	buildPkg(pkg)
	fn := pkg.Func("init")
	if fn == nil || fn.Blocks == nil {
		return
	}
	savedPath := i.p
	i.p = nil
	i.inInit++
	defer func() { i.p = savedPath; i.inInit-- }()
	fr := &frame{i: i, fn: fn, env: map[ssa.Value]value{}}
	fr.locals = make([]value, len(fn.Locals))
	for k, l := range fn.Locals {
		fr.locals[k] = zero(mustDeref(l.Type()))
		fr.env[l] = &fr.locals[k]
	}
	// Walk blocks in order, skipping the guard: block 0 tests init$guard.
	for _, b := range fn.Blocks {
		for _, instr := range b.Instrs {
			switch in := instr.(type) {
			case *ssa.If, *ssa.Jump, *ssa.Return:
				continue
			case *ssa.Call:
				if callee := in.Call.StaticCallee(); callee != nil && callee.Name() == "init" && callee.Pkg != pkg && callee.Signature.Recv() == nil && callee.Parent() == nil {
					continue
				}
			case *ssa.Store:
				if g, ok := in.Addr.(*ssa.Global); ok && g.Name() == "init$guard" {
					continue
				}
			}
			i.tolerant(fr, instr, pkg)
		}
	}
}

func (i *interpreter) tolerant(fr *frame, instr ssa.Instruction, pkg *ssa.Package) {
	defer func() {
		if r := recover(); r != nil {
			if pe, ok := r.(pathEnd); ok && pe.status != stUnsupported && pe.status != stBudget {
				panic(r)
			}
			msg := fmt.Sprintf("%s: %v: %v", pkg.Pkg.Path(), instr, panicText(r))
			if len(msg) > 300 {
				msg = msg[:300]
			}
			i.initFailures[msg] = true
			if v, ok := instr.(ssa.Value); ok {
				fr.env[v] = bad{msg}
			}
		}
	}()
	fr.block = instr.Block()
	visitInstr(fr, instr)
}

func panicText(r interface{}) string {
	switch r := r.(type) {
	case targetPanic:
		return "panic: " + toString(r.v)
	case pathEnd:
		return r.reason
	case error:
		return r.Error()
	case string:
		return r
	}
	return fmt.Sprint(r)
}

// runDefer runs a deferred call d.
// It always returns normally, but may set or clear fr.panic.
func (fr *frame) runDefer(d *deferred) {
	var ok bool
	defer func() {
		if !ok {
			r := recover()
			if _, isEnd := r.(pathEnd); isEnd {
				panic(r)
			}
			if _, isAbort := r.(abortPanic); isAbort {
				panic(r)
			}
			if _, isTP := r.(targetPanic); !isTP {
				panic(engineFault(fr, r))
			}
			// Deferred call created a new state of panic.
			fr.panicking = true
			fr.panic = r
		}
	}()
	call(fr.i, fr, d.instr.Pos(), d.fn, d.args)
	ok = true
}

func (fr *frame) runDefers() {
	for d := fr.defers; d != nil; d = d.tail {
		fr.runDefer(d)
	}
	fr.defers = nil
	if fr.panicking {
		panic(fr.panic) // new panic, or still panicking
	}
}

func lookupMethod(i *interpreter, typ types.Type, meth *types.Func) *ssa.Function {
	switch typ {
	case rtypeType:
		return i.rtypeMethods[meth.Id()]
	case errorType:
		return i.errorMethods[meth.Id()]
	}
	k := methodKey{typ, meth.Id()}
	if f, ok := i.methodCache[k]; ok {
		return f
	}
	f := i.prog.LookupMethod(typ, meth.Pkg(), meth.Name())
	if i.methodCache == nil {
		i.methodCache = map[methodKey]*ssa.Function{}
	}
	i.methodCache[k] = f
	return f
}

func (fr *frame) pos() string {
	if fr == nil || fr.curInstr == nil {
		return ""
	}
	p := fr.curInstr.Pos()
	if p == token.NoPos {
		// search backwards for a position in the block
		return fr.fn.String()
	}
	ps := fr.i.prog.Fset.Position(p)
	return fmt.Sprintf("%s:%d", ps.Filename, ps.Line)
}

// visitInstr interprets a single ssa.Instruction within the activation
// record frame.
func visitInstr(fr *frame, instr ssa.Instruction) continuation {
	fr.curInstr = instr
	switch instr := instr.(type) {
	case *ssa.DebugRef:
		// no-op

	case *ssa.UnOp:
		fr.env[instr] = unop(fr, instr, fr.get(instr.X))

	case *ssa.BinOp:
		fr.env[instr] = binop(fr, instr.Op, instr.X.Type(), instr.Y.Type(), fr.get(instr.X), fr.get(instr.Y))

	case *ssa.Call:
		fn, args := prepareCall(fr, &instr.Call)
		fr.env[instr] = call(fr.i, fr, instr.Pos(), fn, args)

	case *ssa.ChangeInterface:
		fr.env[instr] = fr.get(instr.X)

	case *ssa.ChangeType:
		fr.env[instr] = fr.get(instr.X) // (can't fail)

	case *ssa.Convert:
		fr.env[instr] = conv(fr, instr.Type(), instr.X.Type(), fr.get(instr.X))

	case *ssa.MultiConvert:
		fr.env[instr] = conv(fr, instr.Type(), instr.X.Type(), fr.get(instr.X))

	case *ssa.SliceToArrayPointer:
		fr.env[instr] = sliceToArrayPointer(fr, instr.Type(), instr.X.Type(), fr.get(instr.X))

	case *ssa.MakeInterface:
		fr.env[instr] = iface{t: instr.X.Type(), v: fr.get(instr.X)}

	case *ssa.Extract:
		fr.env[instr] = fr.get(instr.Tuple).(tuple)[instr.Index]

	case *ssa.Slice:
		fr.env[instr] = slice(fr, instr.X.Type(), fr.get(instr.X), fr.get(instr.Low), fr.get(instr.High), fr.get(instr.Max))

	case *ssa.Return:
		switch len(instr.Results) {
		case 0:
		case 1:
			fr.result = fr.get(instr.Results[0])
		default:
			var res []value
			for _, r := range instr.Results {
				res = append(res, fr.get(r))
			}
			fr.result = tuple(res)
		}
		fr.block = nil
		return kReturn

	case *ssa.RunDefers:
		fr.runDefers()

	case *ssa.Panic:
		panic(targetPanic{fr.get(instr.X)})

	case *ssa.Send:
		chanSend(fr, fr.get(instr.Chan), fr.get(instr.X))

	case *ssa.Store:
		storeTo(fr, mustDeref(instr.Addr.Type()), fr.get(instr.Addr), fr.get(instr.Val))

	case *ssa.If:
		succ := 1
		if fr.toBool(fr.get(instr.Cond)) {
			succ = 0
		}
		fr.prevBlock, fr.block = fr.block, fr.block.Succs[succ]
		return kJump

	case *ssa.Jump:
		fr.prevBlock, fr.block = fr.block, fr.block.Succs[0]
		return kJump

	case *ssa.Defer:
		fn, args := prepareCall(fr, &instr.Call)
		defers := &fr.defers
		if instr.DeferStack != nil {
			if into := fr.get(instr.DeferStack); into != nil {
				defers = into.(**deferred)
			}
		}
		*defers = &deferred{
			fn:    fn,
			args:  args,
			instr: instr,
			tail:  *defers,
		}

	case *ssa.Go:
		fn, args := prepareCall(fr, &instr.Call)
		spawnGoroutine(fr, instr, fn, args)

	case *ssa.MakeChan:
		fr.env[instr] = makeChan(fr, instr.Type(), int(fr.toIntV(instr.Size)))

	case *ssa.Alloc:
		var addr *value
		if instr.Heap {
			// new
			addr = new(value)
			fr.env[instr] = addr
		} else {
			// local
			addr = fr.env[instr].(*value)
		}
		*addr = zero(mustDeref(instr.Type()))

	case *ssa.MakeSlice:
		for _, sz := range []ssa.Value{instr.Cap, instr.Len} {
			// a size that depends on input: decide negative / huge symbolically
			// instead of enumerating its values
			if t, ok := fr.get(sz).(*Term); ok {
				t64 := fr.asIdxTerm(t, sz.Type())
				tt := fr.tt()
				if fr.toBool(fr.vBool(tt.Mk(OSlt, sortBool, 0, t64, tt.BV(64, 0)))) {
					rtPanic(fr, "makeslice: len out of range")
				}
				if fr.toBool(fr.vBool(tt.Mk(OSlt, sortBool, 0, tt.BV(64, 1<<40), t64))) {
					panic(pathEnd{stViolation, "allocation size controlled by input can exceed 2^40 elements (make at " + fr.pos() + ")"})
				}
				if fr.toBool(fr.vBool(tt.Mk(OSlt, sortBool, 0, tt.BV(64, 1<<12), t64))) {
					panic(pathEnd{stUnsupported, "symbolic allocation size between 2^12 and 2^40 (make at " + fr.pos() + "): bound it in the harness"})
				}
			}
		}
		c := fr.toIntV(instr.Cap)
		l := fr.toIntV(instr.Len)
		if l < 0 {
			rtPanic(fr, "makeslice: len out of range")
		}
		if c < l {
			rtPanic(fr, "makeslice: cap out of range")
		}
		if c > maxAlloc {
			panic(pathEnd{stViolation, fmt.Sprintf("huge allocation request: make([]T, %d, %d)", l, c)})
		}
		slice := make([]value, c)
		tElt := instr.Type().Underlying().(*types.Slice).Elem()
		for i := range slice {
			slice[i] = zero(tElt)
		}
		fr.env[instr] = slice[:l]

	case *ssa.MakeMap:
		fr.env[instr] = makeMap(instr.Type().Underlying().(*types.Map).Key(), 0)

	case *ssa.Range:
		fr.env[instr] = rangeIter(fr, fr.get(instr.X), instr.X.Type())

	case *ssa.Next:
		fr.env[instr] = fr.get(instr.Iter).(iter).next()

	case *ssa.FieldAddr:
		fr.env[instr] = fieldAddr(fr, fr.get(instr.X), instr.Field)

	case *ssa.Field:
		fr.env[instr] = fr.get(instr.X).(structure)[instr.Field]

	case *ssa.IndexAddr:
		fr.env[instr] = indexAddr(fr, instr, fr.get(instr.X), fr.get(instr.Index))

	case *ssa.Index:
		fr.env[instr] = indexValue(fr, instr, fr.get(instr.X), fr.get(instr.Index))

	case *ssa.Lookup:
		fr.env[instr] = lookup(fr, instr, fr.get(instr.X), fr.get(instr.Index))

	case *ssa.MapUpdate:
		m := fr.get(instr.Map)
		key := fr.get(instr.Key)
		v := fr.get(instr.Value)
		om := m.(*omap)
		if om == nil {
			rtPanic(fr, "assignment to entry in nil map")
		}
		om.insert(fr, key, copyVal(v))

	case *ssa.TypeAssert:
		x := fr.get(instr.X)
		if b, ok := x.(bad); ok {
			panic(pathEnd{stUnsupported, "use of poisoned value: " + b.why})
		}
		fr.env[instr] = typeAssert(fr, instr, x.(iface))

	case *ssa.MakeClosure:
		var bindings []value
		for _, binding := range instr.Bindings {
			bindings = append(bindings, fr.get(binding))
		}
		fr.env[instr] = &closure{instr.Fn.(*ssa.Function), bindings}

	case *ssa.Phi:
		panic("unreachable: phi") // phis are processed at block entry

	case *ssa.Select:
		fr.env[instr] = doSelect(fr, instr)

	default:
		panic(fmt.Sprintf("unexpected instruction: %T", instr))
	}

	return kNext
}

const maxAlloc = 1 << 24

// prepareCall determines the function value and argument values for a
// function call in a Call, Go or Defer instruction, performing
// interface method lookup if needed.
func prepareCall(fr *frame, call *ssa.CallCommon) (fn value, args []value) {
	v := fr.get(call.Value)
	if call.Method == nil {
		// Function call.
		fn = v
	} else {
		// Interface method invocation.
		if b, ok := v.(bad); ok {
			panic(pathEnd{stUnsupported, "use of poisoned value: " + b.why})
		}
		recv := v.(iface)
		if recv.t == nil {
			rtPanic(fr, "invalid memory address or nil pointer dereference (method call on nil interface)")
		}
		if f := lookupMethod(fr.i, recv.t, call.Method); f == nil {
			// Unreachable in well-typed programs.
			panic(fmt.Sprintf("method set for dynamic type %v does not contain %s", recv.t, call.Method))
		} else {
			fn = f
		}
		args = append(args, recv.v)
	}
	for _, arg := range call.Args {
		args = append(args, fr.get(arg))
	}
	return
}

// call interprets a call to a function (function, builtin or closure)
// fn with arguments args, returning its result.
func call(i *interpreter, caller *frame, callpos token.Pos, fn value, args []value) value {
	switch fn := fn.(type) {
	case *ssa.Function:
		if fn == nil {
			rtPanic(caller, "invalid memory address or nil pointer dereference (call of nil func)")
		}
		return callSSA(i, caller, callpos, fn, args, nil)
	case *closure:
		return callSSA(i, caller, callpos, fn.Fn, args, fn.Env)
	case *ssa.Builtin:
		return callBuiltin(caller, callpos, fn, args)
	case *nativeFn:
		return fn.f(caller, args)
	case bad:
		panic(pathEnd{stUnsupported, "call of poisoned value: " + fn.why})
	}
	panic(fmt.Sprintf("cannot call %T", fn))
}

var buildMu = make(chan struct{}, 1)

func buildPkg(p *ssa.Package) {
	p.Build()
}

// callSSA interprets a call to function fn with arguments args,
// and lexical environment env, returning its result.
func callSSA(i *interpreter, caller *frame, callpos token.Pos, fn *ssa.Function, args []value, env []value) value {
	fr := &frame{
		i:      i,
		caller: caller, // for panic/recover
		fn:     fn,
	}
	if caller != nil {
		fr.g = caller.g
	}
	if fn.Parent() == nil {
		if i.bypass == fn {
			i.bypass = nil
		} else if !i.extMiss[fn] {
			name := fn.String()
			if fn.Origin() != nil {
				name = fn.Origin().String()
			}
			if ext := lookupExternal(i, fn, name); ext != nil {
				return ext(fr, args)
			}
			if (i.p == nil || i.p.c == nil || len(i.p.c.H.stubs) == 0) && !inAnyStubSet(name) {
				if i.extMiss == nil {
					i.extMiss = map[*ssa.Function]bool{}
				}
				i.extMiss[fn] = true
			}
		}
		if fn.Blocks == nil && fn.Pkg != nil {
			buildPkg(fn.Pkg)
		}
		if fn.Blocks == nil {
			chain := ""
			for f, k := caller, 0; f != nil && k < 6; f, k = f.caller, k+1 {
				chain += " <- " + f.fn.String()
			}
			panic(pathEnd{stUnsupported, "no code for function: " + fn.String() + chain})
		}
	}

	if summarizable[fn.String()] {
		if v, ok := i.trySummary(fr, fn, args); ok {
			return v
		}
	}

	// generic function body?
	if fn.TypeParams().Len() > 0 && len(fn.TypeArgs()) == 0 {
		panic("interp requires ssa.BuilderMode to include InstantiateGenerics to execute generics")
	}
	i.funcsSeen[fn]++
	if i.trace {
		fmt.Fprintf(os.Stderr, "%*senter %s\n", depthOf(fr), "", fn)
	}

	fr.env = make(map[ssa.Value]value)
	fr.block = fn.Blocks[0]
	fr.locals = make([]value, len(fn.Locals))
	for i, l := range fn.Locals {
		fr.locals[i] = zero(mustDeref(l.Type()))
		fr.env[l] = &fr.locals[i]
	}
	for i, p := range fn.Params {
		fr.env[p] = args[i]
	}
	for i, fv := range fn.FreeVars {
		fr.env[fv] = env[i]
	}
	for fr.block != nil {
		runFrame(fr)
	}
	return fr.result
}

func depthOf(fr *frame) int {
	d := 0
	for f := fr; f != nil; f = f.caller {
		d++
	}
	return d
}

// engineFault converts an interpreter-internal panic into a path end.
func engineFault(fr *frame, r interface{}) pathEnd {
	if pe, ok := r.(pathEnd); ok {
		return pe
	}
	msg := panicText(r)
	if _, ok := r.(runtime.Error); ok {
		// keep a short stack for debugging engine bugs
		st := string(debug.Stack())
		lines := strings.Split(st, "\n")
		var keep []string
		for _, l := range lines {
			if strings.Contains(l, "/verif/engine/") && !strings.Contains(l, "interp.go") {
				keep = append(keep, strings.TrimSpace(l))
				if len(keep) >= 3 {
					break
				}
			}
		}
		msg += " [" + strings.Join(keep, " <- ") + "]"
	}
	return pathEnd{stUnsupported, fmt.Sprintf("engine: %s (in %s at %s)", msg, fr.fn, fr.pos())}
}

// runFrame executes SSA instructions starting at fr.block and
// continuing until a return, a panic, or a recovered panic.
func runFrame(fr *frame) {
	defer func() {
		if fr.block == nil {
			return // normal return
		}
		r := recover()
		switch r.(type) {
		case pathEnd, abortPanic:
			panic(r)
		case targetPanic:
		case goexitPanic:
		default:
			panic(engineFault(fr, r))
		}
		fr.panicking = true
		fr.panic = r
		fr.runDefers()
		fr.block = fr.fn.Recover
	}()

	for {
		nonPhis := executePhis(fr)
		for _, instr := range nonPhis {
			if p := fr.i.p; p != nil {
				p.steps++
				if p.steps > p.maxSteps {
					panic(pathEnd{stBudget, fmt.Sprintf("step budget %d exceeded in %s", p.maxSteps, fr.fn)})
				}
			}
			if visitInstr(fr, instr) == kReturn {
				return
			}
			// Inv: kNext (continue) or kJump (last instr)
		}
	}
}

// executePhis executes the phi-nodes at the start of the current
// block and returns the non-phi instructions.
func executePhis(fr *frame) []ssa.Instruction {
	firstNonPhi := -1
	for i, instr := range fr.block.Instrs {
		if _, ok := instr.(*ssa.Phi); !ok {
			firstNonPhi = i
			break
		}
	}
	// Inv: 0 <= firstNonPhi; every block contains a non-phi.

	nonPhis := fr.block.Instrs[firstNonPhi:]
	if firstNonPhi > 0 {
		phis := fr.block.Instrs[:firstNonPhi]
		predIndex := slices.Index(fr.block.Preds, fr.prevBlock)
		fr.phitemps = fr.phitemps[:0]
		for _, phi := range phis {
			phi := phi.(*ssa.Phi)
			fr.phitemps = append(fr.phitemps, fr.get(phi.Edges[predIndex]))
		}
		for i, phi := range phis {
			fr.env[phi.(*ssa.Phi)] = fr.phitemps[i]
		}
	}
	return nonPhis
}

// doRecover implements the recover() built-in.
func doRecover(caller *frame) value {
	// recover() must be exactly one level beneath the deferred
	// function (two levels beneath the panicking function) to
	// have any effect.
	if caller != nil && !caller.panicking &&
		caller.caller != nil && caller.caller.panicking {
		p := caller.caller.panic
		switch p := p.(type) {
		case targetPanic:
			caller.caller.panicking = false
			caller.caller.panic = nil
			return p.v
		case goexitPanic:
			return iface{}
		default:
			panic(fmt.Sprintf("unexpected panic type %T in target call to recover()", p))
		}
	}
	return iface{}
}

type goexitPanic struct{}

// rtPanic raises a Go run-time panic in the target program.
func rtPanic(fr *frame, msg string) {
	if fr.i.w != nil && fr.i.w.verbose {
		chain := ""
		for f, k := fr, 0; f != nil && k < 5; f, k = f.caller, k+1 {
			chain += " <- " + f.fn.String() + "@" + f.pos()
		}
		fmt.Fprintln(os.Stderr, "rtPanic:", msg, chain)
	}
	panic(targetPanic{iface{fr.i.runtimeErrorString, "runtime error: " + msg}})
}

func newInterpreter(prog *ssa.Program, w *Worker) *interpreter {
	i := &interpreter{
		prog:         prog,
		globals:      make(map[*ssa.Global]*value),
		pkgInit:      make(map[*ssa.Package]int),
		sizes:        &types.StdSizes{WordSize: 8, MaxAlign: 8},
		w:            w,
		initFailures: map[string]bool{},
		funcsSeen:    map[*ssa.Function]int64{},
	}
	runtimePkg := prog.ImportedPackage("runtime")
	if runtimePkg == nil {
		panic("ssa.Program doesn't include runtime package")
	}
	i.runtimeErrorString = runtimePkg.Type("errorString").Object().Type()
	initReflect(i)
	return i
}
