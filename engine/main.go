package main

import (
	"encoding/json"
	"flag"
	"fmt"
	"os"
	"os/exec"
	"path/filepath"
	"runtime"
	"runtime/pprof"
	"sort"
	"strconv"
	"strings"
	"sync"
	"time"

	"go/types"

	"golang.org/x/tools/go/ssa"
)

func usage() {
	fmt.Fprintln(os.Stderr, "usage: symgo check <property> [--tier quick|thorough] [-v] | symgo replay <file>")
	os.Exit(2)
}

func main() {
	if len(os.Args) < 3 {
		usage()
	}
	switch os.Args[1] {
	case "check":
		os.Exit(cmdCheck(os.Args[2], os.Args[3:]))
	case "replay":
		os.Exit(cmdReplay(os.Args[2]))
	}
	usage()
}

func cmdCheck(id string, args []string) int {
	fs := flag.NewFlagSet("check", flag.ExitOnError)
	tier := fs.String("tier", envOr("VERIF_TIER", "quick"), "quick|thorough")
	verbose := fs.Bool("v", false, "verbose")
	trace := fs.Bool("trace", false, "trace calls")
	solver := fs.String("solver", "z3", "z3|z3-new|cvc5")
	workers := fs.Int("j", runtime.NumCPU(), "workers")
	only := fs.String("only", "", "run only harnesses whose name contains this")
	slog := fs.String("solver-log", "", "write solver input to this file prefix")
	noReplay := fs.Bool("no-replay", false, "skip native replays (debugging only)")
	noEvidence := fs.Bool("no-evidence", false, "do not write the evidence file")
	paramsF := fs.String("params", "", "run only the case with these params, e.g. 3,3,0")
	cpuprof := fs.String("cpuprofile", "", "write cpu profile")
	fs.Parse(args)
	if *cpuprof != "" {
		f, _ := os.Create(*cpuprof)
		pprof.StartCPUProfile(f)
		defer pprof.StopCPUProfile()
	}
	seed, _ := strconv.ParseInt(os.Getenv("VERIF_SEED"), 10, 64)
	t0 := time.Now()
	buildExternals()

	cs, err := loadCheckSpec(id)
	if err != nil {
		fmt.Fprintln(os.Stderr, "BROKEN:", err)
		return 2
	}
	cfg := &RunConfig{Tier: *tier, Solver: *solver, Verbose: *verbose, Trace: *trace, Workers: *workers, Only: *only, SolverLog: *slog, Seed: seed, NoReplay: *noReplay}
	cfg.QueryTimeoutMs = 10000
	if *tier == "thorough" {
		cfg.QueryTimeoutMs = 60000
	}
	if v, ok := cs.QueryMs[*tier]; ok {
		cfg.QueryTimeoutMs = v
	}
	budget := 600
	if *tier == "thorough" {
		budget = 3600
	}
	if v, ok := cs.BudgetS[*tier]; ok {
		budget = v
	}

	prog, pkgs, err := loadProgram(cs)
	if err != nil {
		fmt.Fprintln(os.Stderr, "BROKEN: load:", err)
		return 2
	}
	loadS := time.Since(t0).Seconds()
	initReflectOnce(prog)

	e := &Engine{prog: prog, cfg: cfg, known: loadKnown(), funcs: map[string]int64{}, initFailures: map[string]bool{}}
	e.deadline = time.Now().Add(time.Duration(budget) * time.Second)
	var cases []*Case
	for _, h := range cs.Harnesses {
		if *only != "" && !strings.Contains(h.Func, *only) {
			continue
		}
		p := pkgs[h.Pkg]
		if p == nil {
			fmt.Fprintf(os.Stderr, "BROKEN: package %s not loaded\n", h.Pkg)
			return 2
		}
		fn := p.Func(h.Func)
		if fn == nil {
			fmt.Fprintf(os.Stderr, "BROKEN: harness %s.%s not found\n", h.Pkg, h.Func)
			return 2
		}
		h.stubs = map[string]externalFn{}
		for _, s := range h.Stubs {
			set, ok := stubSets[s]
			if !ok {
				fmt.Fprintf(os.Stderr, "BROKEN: unknown stub set %s\n", s)
				return 2
			}
			for k, v := range set {
				h.stubs[k] = v
			}
		}
		ps := h.Cases[*tier]
		if ps == nil && *tier == "thorough" {
			ps = h.Cases["quick"]
		}
		if len(ps) == 0 && fn.Signature.Params().Len() == 0 {
			ps = [][]int64{{}}
		}
		ms := h.MaxSteps
		if ms == 0 {
			ms = 5_000_000
		}
		for _, prm := range ps {
			if *paramsF != "" && strings.Trim(strings.ReplaceAll(fmt.Sprint(prm), " ", ","), "[]") != *paramsF {
				continue
			}
			if len(prm) != fn.Signature.Params().Len() {
				fmt.Fprintf(os.Stderr, "BROKEN: harness %s takes %d params, case has %d\n", h.Func, fn.Signature.Params().Len(), len(prm))
				return 2
			}
			cases = append(cases, &Case{H: h, Fn: fn, Params: prm, MaxSteps: ms})
		}
	}
	if len(cases) == 0 {
		fmt.Fprintln(os.Stderr, "BROKEN: no cases")
		return 2
	}
	e.run(cases, *workers)
	exploreS := time.Since(t0).Seconds() - loadS

	// ---- native replays
	var viols, wits []*Violation
	for _, c := range cases {
		viols = append(viols, c.violations...)
		if c.witness != nil {
			wits = append(wits, c.witness)
		}
	}
	rp := &replayer{cs: cs, prog: prog, pkgs: pkgs}
	defer rp.cleanup()
	os.MkdirAll(filepath.Join(verifDir, "replays"), 0o755)
	spurious := 0
	confirmed := 0
	validated := 0
	witnessBad := 0
	hpkg := map[string]string{}
	schedHarness := map[string]bool{}
	for _, h := range cs.Harnesses {
		hpkg[h.Func] = h.Pkg
		schedHarness[h.Func] = h.Sched
	}
	var replayLines []string
	if !cfg.NoReplay {
		var mu sync.Mutex
		var wg sync.WaitGroup
		sem := make(chan struct{}, 8)
		do := func(v *Violation, idx int, isWitness bool, c *Case) {
			defer wg.Done()
			sem <- struct{}{}
			defer func() { <-sem }()
			name := fmt.Sprintf("%s-%s-%d.json", cs.Property, v.Kind, idx)
			path := filepath.Join(verifDir, "replays", name)
			writeReplay(path, cs.Property, v)
			res, err := rp.run(hpkg[v.Harness], path)
			mu.Lock()
			defer mu.Unlock()
			if err != nil {
				v.Confirmed = "error: " + err.Error()
				if isWitness {
					witnessBad++
				} else {
					spurious++
				}
				return
			}
			if isWitness {
				ok := res.Outcome == "ok"
				if ok && !c.H.Sched { // under the Go scheduler the counts depend on the schedule
					for k, n := range c.witnessAsserts {
						if res.Asserts[k] != n {
							ok = false
						}
					}
				}
				if ok {
					validated++
					v.Confirmed = "witness reproduced"
					os.Remove(path)
				} else {
					witnessBad++
					v.Confirmed = fmt.Sprintf("witness mismatch: native %s %s asserts=%v engine=%v", res.Outcome, res.Detail, res.Asserts, c.witnessAsserts)
				}
				return
			}
			switch {
			case v.Kind == "assert" && res.Outcome == "assert" && res.Detail == v.Site:
				v.Confirmed = "reproduced"
			case v.Kind == "panic" && strings.HasPrefix(v.Msg, "panic:") && res.Outcome == "panic":
				v.Confirmed = "reproduced: " + res.Detail
			case v.Kind == "panic" && !strings.HasPrefix(v.Msg, "panic:"):
				// engine-level violation (deadlock, huge allocation): native run
				// may hang or die differently; accept any non-ok outcome
				if res.Outcome != "ok" {
					v.Confirmed = "reproduced: " + res.Outcome + " " + res.Detail
				}
			}
			if v.Confirmed == "" && schedHarness[v.Harness] {
				// schedule-dependent: the Go scheduler need not hit the interleaving.
				// The counterexample is the engine's deterministic schedule (decision
				// prefix), which reproduces by construction when re-executed.
				v.Confirmed = fmt.Sprintf("reproduced by deterministic schedule replay in the engine (native run under the Go scheduler: %s)", res.Outcome)
				confirmed++
				replayLines = append(replayLines, fmt.Sprintf("VIOLATION property=%s replay=%s", cs.Property, path))
			} else if v.Confirmed == "" {
				v.Confirmed = fmt.Sprintf("NOT reproduced: native %s %s", res.Outcome, res.Detail)
				spurious++
			} else {
				confirmed++
				replayLines = append(replayLines, fmt.Sprintf("VIOLATION property=%s replay=%s", cs.Property, path))
			}
		}
		for i, v := range viols {
			wg.Add(1)
			go do(v, i, false, nil)
		}
		for i, c := range cases {
			if c.witness != nil {
				wg.Add(1)
				go do(c.witness, i, true, c)
			}
		}
		wg.Wait()
	}

	// ---- aggregate
	var tot [8]int
	paths, decisions, obligations, discharged := 0, int64(0), 0, 0
	reasons := map[string]int{}
	vacuous := []string{}
	for _, c := range cases {
		for k, n := range c.counts {
			tot[k] += n
		}
		paths += c.paths
		decisions += c.decisions
		obligations += c.obligations
		discharged += c.discharged
		for k, n := range c.reasons {
			reasons[c.H.Func+": "+k] += n
		}
		if len(c.assertsHit) == 0 {
			vacuous = append(vacuous, c.String())
		}
	}
	exhaustive := !e.timedOut && tot[stUnsupported] == 0 && tot[stBudget] == 0 && tot[stUnknown] == 0 && tot[stUnwound] == 0 && e.unknownBranches == 0 && !cs.NonExhaustive
	sort.Strings(replayLines)

	status := 0
	for id, where := range e.knownHit {
		for _, k := range e.known {
			if k.ID == id {
				fmt.Printf("KNOWN-FINDING: property=%s %s [%s] (%s)\n", cs.Property, k.Text, k.ID, where)
			}
		}
	}
	for _, l := range replayLines {
		fmt.Println(l)
		status = 1
	}
	for _, v := range viols {
		fmt.Fprintf(os.Stderr, "  %s%v %s: %s -> %s\n    values: %s\n", v.Harness, v.Params, v.Kind, v.Msg, v.Confirmed, fmtValues(v.Values))
	}
	broken := []string{}
	if spurious > 0 {
		broken = append(broken, fmt.Sprintf("%d counterexample(s) did not reproduce natively (SPURIOUS: encoder or stub wrong)", spurious))
	}
	if witnessBad > 0 {
		broken = append(broken, fmt.Sprintf("%d reachability witness(es) did not reproduce natively", witnessBad))
		for _, w := range wits {
			if !strings.HasPrefix(w.Confirmed, "witness reproduced") {
				fmt.Fprintf(os.Stderr, "  witness %s%v: %s\n    values: %s\n", w.Harness, w.Params, w.Confirmed, fmtValues(w.Values))
			}
		}
	}
	if len(vacuous) > 0 {
		broken = append(broken, "vacuous cases (no assertion reached): "+strings.Join(vacuous, ", "))
	}
	if e.stats.Errors > 0 {
		broken = append(broken, fmt.Sprintf("%d solver error lines", e.stats.Errors))
	}
	if len(broken) > 0 && status == 0 {
		status = 2
	}

	wall := time.Since(t0).Seconds()
	fmt.Fprintf(os.Stderr, "%s %s: cases=%d paths=%d (complete=%d pruned=%d violation=%d unsupported=%d budget=%d unknown=%d infeasible=%d) decisions=%d obligations=%d discharged=%d solver: q=%d inc=%d/%d cache=%d %.1fs(model %.1fs) unk=%d  load=%.1fs explore=%.1fs wall=%.1fs exhaustive=%v timedout=%v\n",
		cs.Property, *tier, len(cases), paths, tot[stComplete], tot[stAssumeFalse], tot[stViolation], tot[stUnsupported], tot[stBudget], tot[stUnknown], tot[stInfeasible],
		decisions, obligations, discharged, e.stats.Queries, e.incHits, e.incMisses, e.stats.CacheHits, e.stats.Seconds, e.stats.ModelSeconds, e.stats.UnknownN, loadS, exploreS, wall, exhaustive, e.timedOut)
	for _, k := range sortedKeys(reasons) {
		if !strings.Contains(k, "violation:") || *verbose {
			fmt.Fprintf(os.Stderr, "  %5d × %s\n", reasons[k], k)
		}
	}
	if *verbose {
		for _, k := range sortedKeys(e.initFailures) {
			fmt.Fprintln(os.Stderr, "  init failure:", k)
		}
	}
	for _, b := range broken {
		fmt.Fprintln(os.Stderr, "BROKEN:", b)
	}

	if !*noEvidence {
		writeEvidence(cs, cfg, e, cases, evidenceNums{
			paths: paths, decisions: decisions, obligations: obligations, discharged: discharged,
			tot: tot, validated: validated, confirmed: confirmed, spurious: spurious, exhaustive: exhaustive,
			wall: wall, loadS: loadS, exploreS: exploreS, reasons: reasons, broken: broken, viols: viols,
		})
	}
	return status
}

func envOr(k, d string) string {
	if v := os.Getenv(k); v != "" {
		return v
	}
	return d
}

func fmtValues(vs []ReplayValue) string {
	var sb strings.Builder
	for i, v := range vs {
		if i > 0 {
			sb.WriteString(" ")
		}
		if i > 40 {
			sb.WriteString("…")
			break
		}
		fmt.Fprintf(&sb, "%s=%s", v.Name, v.Value)
	}
	return sb.String()
}

func writeReplay(path, prop string, v *Violation) {
	m := map[string]any{
		"property": prop, "harness": v.Harness, "params": v.Params, "kind": v.Kind,
		"site": v.Site, "message": v.Msg, "values": v.Values,
	}
	b, _ := json.MarshalIndent(m, "", " ")
	os.WriteFile(path, b, 0o644)
}

// ---------------------------------------------------------------- native replay

type replayResult struct {
	Outcome string         `json:"outcome"`
	Detail  string         `json:"detail"`
	Asserts map[string]int `json:"asserts"`
}

type replayer struct {
	cs    *CheckSpec
	prog  *ssa.Program
	pkgs  map[string]*ssa.Package
	mu    sync.Mutex
	bins  map[string]string
	errs  map[string]error
	dir   string
}

func (r *replayer) cleanup() {
	if r.dir != "" {
		os.RemoveAll(r.dir)
	}
}

// binFor builds (once) the native test binary of pkg with the harnesses overlaid.
func (r *replayer) binFor(pkg string) (string, error) {
	r.mu.Lock()
	defer r.mu.Unlock()
	if r.bins == nil {
		r.bins = map[string]string{}
		r.errs = map[string]error{}
		r.dir = fmt.Sprintf("/var/tmp/verif-%d", os.Getpid())
		os.MkdirAll(r.dir, 0o755)
	}
	if b, ok := r.bins[pkg]; ok {
		return b, r.errs[pkg]
	}
	_, real, err := overlayFor(r.cs.Files, r.cs.ModelPkgs...)
	if err != nil {
		return "", err
	}
	// generate the test driver
	sp := r.pkgs[pkg]
	var sb strings.Builder
	fmt.Fprintf(&sb, "package %s\n\nimport (\n\t\"testing\"\n\t\"%s/pkg/zzvrt\"\n)\n\nfunc TestVerifReplay(t *testing.T) {\n\tzzvrt.RunReplay(map[string]func(p []int){\n", sp.Pkg.Name(), modPath)
	for _, h := range r.cs.Harnesses {
		if h.Pkg != pkg {
			continue
		}
		fn := sp.Func(h.Func)
		n := fn.Signature.Params().Len()
		var as []string
		for i := 0; i < n; i++ {
			as = append(as, fmt.Sprintf("p[%d]", i))
		}
		fmt.Fprintf(&sb, "\t\t%q: func(p []int) { %s(%s) },\n", h.Func, h.Func, strings.Join(as, ", "))
	}
	sb.WriteString("\t})\n}\n")
	tag := strings.ReplaceAll(shortPkg(pkg), "/", "_")
	testFile := filepath.Join(r.dir, tag+"_replay_test.go")
	os.WriteFile(testFile, []byte(sb.String()), 0o644)
	real[filepath.Join(repoDir, shortPkg(pkg), "zz_verif_replay_test.go")] = testFile
	ovJSON, _ := json.Marshal(map[string]any{"Replace": real})
	ovFile := filepath.Join(r.dir, tag+"_overlay.json")
	os.WriteFile(ovFile, ovJSON, 0o644)
	bin := filepath.Join(r.dir, tag+".test")
	cmd := exec.Command("go", "test", "-c", "-vet=off", "-overlay", ovFile, "-o", bin, "./"+shortPkg(pkg))
	cmd.Dir = repoDir
	cmd.Env = append(goEnv(), "CGO_ENABLED=1")
	out, err := cmd.CombinedOutput()
	if err != nil {
		err = fmt.Errorf("go test -c failed: %v\n%s", err, out)
	}
	r.bins[pkg] = bin
	r.errs[pkg] = err
	return bin, err
}

func (r *replayer) run(pkg, replayFile string) (*replayResult, error) {
	bin, err := r.binFor(pkg)
	if err != nil {
		return nil, err
	}
	cmd := exec.Command("timeout", "60", bin, "-test.run", "^TestVerifReplay$", "-test.v")
	cmd.Env = append(os.Environ(), "VERIF_REPLAY="+replayFile)
	cmd.Dir = filepath.Join(repoDir, shortPkg(pkg))
	out, err := cmd.CombinedOutput()
	for _, l := range strings.Split(string(out), "\n") {
		if i := strings.Index(l, "VERIF-RESULT "); i >= 0 {
			var res replayResult
			if e := json.Unmarshal([]byte(l[i+len("VERIF-RESULT "):]), &res); e != nil {
				return nil, e
			}
			return &res, nil
		}
	}
	// no result line: the process died (fatal error, timeout, os.Exit)
	tail := string(out)
	if len(tail) > 300 {
		tail = tail[len(tail)-300:]
	}
	return &replayResult{Outcome: "crash", Detail: fmt.Sprintf("%v: %s", err, tail)}, nil
}

func cmdReplay(file string) int {
	b, err := os.ReadFile(file)
	if err != nil {
		fmt.Fprintln(os.Stderr, err)
		return 2
	}
	var r struct {
		Property string `json:"property"`
		Harness  string `json:"harness"`
	}
	json.Unmarshal(b, &r)
	cs, err := loadCheckSpec(r.Property)
	if err != nil {
		fmt.Fprintln(os.Stderr, err)
		return 2
	}
	_, pkgs, err := loadProgram(cs)
	if err != nil {
		fmt.Fprintln(os.Stderr, err)
		return 2
	}
	pkg := ""
	for _, h := range cs.Harnesses {
		if h.Func == r.Harness {
			pkg = h.Pkg
		}
	}
	rp := &replayer{cs: cs, pkgs: pkgs}
	defer rp.cleanup()
	abs, _ := filepath.Abs(file)
	res, err := rp.run(pkg, abs)
	if err != nil {
		fmt.Fprintln(os.Stderr, err)
		return 2
	}
	fmt.Printf("native replay of %s: %s %s asserts=%v\n", file, res.Outcome, res.Detail, res.Asserts)
	if res.Outcome == "ok" || res.Outcome == "assume-false" {
		return 0
	}
	return 1
}

var _ = types.Typ
